// Package vp defines the records exchanged between the driver (cmd/verif) and
// the check providers (cmd/harness, cmd/gencheck).
package vp

// Viol is one violation found in an instance.
type Viol struct {
	Rule    string   `json:"rule"`
	Key     string   `json:"key"`
	Msg     string   `json:"msg"`
	Choices []int    `json:"choices,omitempty"`
	Devs    int      `json:"deviations"`
	Blocked []string `json:"blocked,omitempty"`
	Input   any      `json:"input,omitempty"`
}

// InstResult is what a provider reports for one scenario instance.
type InstResult struct {
	Index          int            `json:"index"`
	Name           string         `json:"name"`
	Bound          int            `json:"bound"`
	BoundCompleted int            `json:"bound_completed"`
	Execs          int            `json:"execs"`
	Steps          int            `json:"steps"`
	Points         int            `json:"points"`
	States         int            `json:"states"`
	MaxAlts        int            `json:"max_alts"`
	MaxThreads     int            `json:"max_threads"`
	CapHits        int            `json:"cap_hits"`
	Pruned         int            `json:"pruned"`
	Histories      int            `json:"histories"`
	Complete       bool           `json:"complete"`
	Outcomes       map[string]int `json:"outcomes"`
	ViolExecs      int            `json:"viol_execs"`
	Violations     []Viol         `json:"violations,omitempty"`
	Sample         any            `json:"sample,omitempty"`
	ElapsedMs      int64          `json:"elapsed_ms"`
	Skipped        bool           `json:"skipped,omitempty"`
	Error          string         `json:"error,omitempty"`
}

// Replay is the content of a replay file.
type Replay struct {
	Property string   `json:"property"`
	Check    string   `json:"check"`
	Tier     string   `json:"tier"`
	Instance string   `json:"instance"`
	Index    int      `json:"index"`
	Rule     string   `json:"rule"`
	Key      string   `json:"key"`
	Msg      string   `json:"msg"`
	Choices  []int    `json:"choices,omitempty"`
	Input    any      `json:"input,omitempty"`
	Blocked  []string `json:"blocked,omitempty"`
	Log      []string `json:"log,omitempty"`
}
