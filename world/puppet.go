package world

import (
	"fmt"
	"sort"

	"github.com/relab/gorums"
	"github.com/relab/gorums/cmd/protoc-gen-gorums/dev"
	"google.golang.org/protobuf/types/known/emptypb"

	"verif/mc"
	"verif/mc/fakegrpc"
)

// HCtx is what a scenario's handler behaviour sees.
type HCtx struct {
	W       *W
	Node    int
	Method  string
	Tok     int
	Payload string
	Ctx     gorums.ServerCtx
	Conn    int
	Inc     int
	// Send emits one stream reply with value digit val and sequence number seq (server-stream methods only).
	Send func(seq, val int) error
}

// Release calls ServerCtx.Release and logs it.
func (h *HCtx) Release() {
	// logged before the call: once the lock is released the server may start the next handler at once
	h.W.Event(&h.W.srvO[h.Node], Event{Kind: "release", Node: h.Node, Conn: h.Conn, Inc: h.Inc, Method: h.Method, Tok: h.Tok})
	h.Ctx.Release()
}

// Reply is the outcome of a puppet handler.
type Reply struct {
	Val int
	Err error
}

// Puppet implements the generated server interface for one endpoint.
type Puppet struct {
	w    *W
	node int
}

func (p *Puppet) run(ctx gorums.ServerCtx, method, payload string, send func(seq, val int) error) Reply {
	w := p.w
	st := fakegrpc.StreamOf(ctx)
	h := &HCtx{W: w, Node: p.node, Method: method, Tok: TokOf(payload), Payload: payload, Ctx: ctx, Send: send}
	if st != nil {
		h.Conn, h.Inc = st.ID, st.Inc
	}
	w.Event(&w.srvO[p.node], Event{Kind: "enter", Node: p.node, Conn: h.Conn, Inc: h.Inc, Method: method, Tok: h.Tok, Payload: payload})
	var r Reply
	if w.Handle != nil {
		r = w.Handle(h)
	}
	w.Event(&w.srvO[p.node], Event{Kind: "exit", Node: p.node, Conn: h.Conn, Inc: h.Inc, Method: method, Tok: h.Tok})
	return r
}

func (p *Puppet) twoWay(ctx gorums.ServerCtx, method string, r *dev.Request) (*dev.Response, error) {
	rep := p.run(ctx, method, r.GetValue(), nil)
	if rep.Err != nil {
		return nil, rep.Err
	}
	return &dev.Response{Result: Stamp(TokOf(r.GetValue()), p.node, 0, rep.Val)}, nil
}

func (p *Puppet) stream(ctx gorums.ServerCtx, method string, r *dev.Request, send func(*dev.Response) error) error {
	tok := TokOf(r.GetValue())
	rep := p.run(ctx, method, r.GetValue(), func(seq, val int) error {
		return send(&dev.Response{Result: Stamp(tok, p.node, seq, val)})
	})
	return rep.Err
}

func (p *Puppet) GRPCCall(ctx gorums.ServerCtx, r *dev.Request) (*dev.Response, error) {
	return p.twoWay(ctx, "GRPCCall", r)
}
func (p *Puppet) QuorumCall(ctx gorums.ServerCtx, r *dev.Request) (*dev.Response, error) {
	return p.twoWay(ctx, "QuorumCall", r)
}
func (p *Puppet) QuorumCallPerNodeArg(ctx gorums.ServerCtx, r *dev.Request) (*dev.Response, error) {
	return p.twoWay(ctx, "QuorumCallPerNodeArg", r)
}
func (p *Puppet) QuorumCallCustomReturnType(ctx gorums.ServerCtx, r *dev.Request) (*dev.Response, error) {
	return p.twoWay(ctx, "QuorumCallCustomReturnType", r)
}
func (p *Puppet) QuorumCallCombo(ctx gorums.ServerCtx, r *dev.Request) (*dev.Response, error) {
	return p.twoWay(ctx, "QuorumCallCombo", r)
}
func (p *Puppet) QuorumCallEmpty(ctx gorums.ServerCtx, r *emptypb.Empty) (*dev.Response, error) {
	rep := p.run(ctx, "QuorumCallEmpty", "", nil)
	return &dev.Response{Result: Stamp(0, p.node, 0, rep.Val)}, rep.Err
}
func (p *Puppet) QuorumCallEmpty2(ctx gorums.ServerCtx, r *dev.Request) (*emptypb.Empty, error) {
	rep := p.run(ctx, "QuorumCallEmpty2", r.GetValue(), nil)
	return &emptypb.Empty{}, rep.Err
}
func (p *Puppet) Multicast(ctx gorums.ServerCtx, r *dev.Request) {
	p.run(ctx, "Multicast", r.GetValue(), nil)
}
func (p *Puppet) MulticastPerNodeArg(ctx gorums.ServerCtx, r *dev.Request) {
	p.run(ctx, "MulticastPerNodeArg", r.GetValue(), nil)
}
func (p *Puppet) Multicast2(ctx gorums.ServerCtx, r *dev.Request) {
	p.run(ctx, "Multicast2", r.GetValue(), nil)
}
func (p *Puppet) Multicast3(ctx gorums.ServerCtx, r *dev.Request) {
	p.run(ctx, "Multicast3", r.GetValue(), nil)
}
func (p *Puppet) Multicast4(ctx gorums.ServerCtx, r *emptypb.Empty) {
	p.run(ctx, "Multicast4", "", nil)
}
func (p *Puppet) QuorumCallAsync(ctx gorums.ServerCtx, r *dev.Request) (*dev.Response, error) {
	return p.twoWay(ctx, "QuorumCallAsync", r)
}
func (p *Puppet) QuorumCallAsyncPerNodeArg(ctx gorums.ServerCtx, r *dev.Request) (*dev.Response, error) {
	return p.twoWay(ctx, "QuorumCallAsyncPerNodeArg", r)
}
func (p *Puppet) QuorumCallAsyncCustomReturnType(ctx gorums.ServerCtx, r *dev.Request) (*dev.Response, error) {
	return p.twoWay(ctx, "QuorumCallAsyncCustomReturnType", r)
}
func (p *Puppet) QuorumCallAsyncCombo(ctx gorums.ServerCtx, r *dev.Request) (*dev.Response, error) {
	return p.twoWay(ctx, "QuorumCallAsyncCombo", r)
}
func (p *Puppet) QuorumCallAsync2(ctx gorums.ServerCtx, r *dev.Request) (*dev.Response, error) {
	return p.twoWay(ctx, "QuorumCallAsync2", r)
}
func (p *Puppet) QuorumCallAsyncEmpty(ctx gorums.ServerCtx, r *dev.Request) (*emptypb.Empty, error) {
	rep := p.run(ctx, "QuorumCallAsyncEmpty", r.GetValue(), nil)
	return &emptypb.Empty{}, rep.Err
}
func (p *Puppet) QuorumCallAsyncEmpty2(ctx gorums.ServerCtx, r *emptypb.Empty) (*dev.Response, error) {
	rep := p.run(ctx, "QuorumCallAsyncEmpty2", "", nil)
	return &dev.Response{Result: Stamp(0, p.node, 0, rep.Val)}, rep.Err
}
func (p *Puppet) Correctable(ctx gorums.ServerCtx, r *dev.Request) (*dev.Response, error) {
	return p.twoWay(ctx, "Correctable", r)
}
func (p *Puppet) CorrectablePerNodeArg(ctx gorums.ServerCtx, r *dev.Request) (*dev.Response, error) {
	return p.twoWay(ctx, "CorrectablePerNodeArg", r)
}
func (p *Puppet) CorrectableCustomReturnType(ctx gorums.ServerCtx, r *dev.Request) (*dev.Response, error) {
	return p.twoWay(ctx, "CorrectableCustomReturnType", r)
}
func (p *Puppet) CorrectableCombo(ctx gorums.ServerCtx, r *dev.Request) (*dev.Response, error) {
	return p.twoWay(ctx, "CorrectableCombo", r)
}
func (p *Puppet) CorrectableEmpty(ctx gorums.ServerCtx, r *dev.Request) (*emptypb.Empty, error) {
	rep := p.run(ctx, "CorrectableEmpty", r.GetValue(), nil)
	return &emptypb.Empty{}, rep.Err
}
func (p *Puppet) CorrectableEmpty2(ctx gorums.ServerCtx, r *emptypb.Empty) (*dev.Response, error) {
	rep := p.run(ctx, "CorrectableEmpty2", "", nil)
	return &dev.Response{Result: Stamp(0, p.node, 0, rep.Val)}, rep.Err
}
func (p *Puppet) CorrectableStream(ctx gorums.ServerCtx, r *dev.Request, send func(*dev.Response) error) error {
	return p.stream(ctx, "CorrectableStream", r, send)
}
func (p *Puppet) CorrectableStreamPerNodeArg(ctx gorums.ServerCtx, r *dev.Request, send func(*dev.Response) error) error {
	return p.stream(ctx, "CorrectableStreamPerNodeArg", r, send)
}
func (p *Puppet) CorrectableStreamCustomReturnType(ctx gorums.ServerCtx, r *dev.Request, send func(*dev.Response) error) error {
	return p.stream(ctx, "CorrectableStreamCustomReturnType", r, send)
}
func (p *Puppet) CorrectableStreamCombo(ctx gorums.ServerCtx, r *dev.Request, send func(*dev.Response) error) error {
	return p.stream(ctx, "CorrectableStreamCombo", r, send)
}
func (p *Puppet) CorrectableStreamEmpty(ctx gorums.ServerCtx, r *dev.Request, send func(*emptypb.Empty) error) error {
	rep := p.run(ctx, "CorrectableStreamEmpty", r.GetValue(), func(seq, val int) error { return send(&emptypb.Empty{}) })
	return rep.Err
}
func (p *Puppet) CorrectableStreamEmpty2(ctx gorums.ServerCtx, r *emptypb.Empty, send func(*dev.Response) error) error {
	rep := p.run(ctx, "CorrectableStreamEmpty2", "", func(seq, val int) error {
		return send(&dev.Response{Result: Stamp(0, p.node, seq, val)})
	})
	return rep.Err
}
func (p *Puppet) Unicast(ctx gorums.ServerCtx, r *dev.Request) {
	p.run(ctx, "Unicast", r.GetValue(), nil)
}
func (p *Puppet) Unicast2(ctx gorums.ServerCtx, r *dev.Request) {
	p.run(ctx, "Unicast2", r.GetValue(), nil)
}

// ---- quorum specification ----

// QSpec implements the generated QuorumSpec; every invocation is logged on the call it belongs to.
type QSpec struct {
	w *W
}

func (q *QSpec) inv(method string, in *dev.Request, replies map[uint32]*dev.Response) *QFInv {
	w := q.w
	tok := TokOf(in.GetValue())
	c := w.CallByTok(tok)
	inv := &QFInv{Method: method, Level: gorums.LevelNotSet}
	for k := range replies {
		inv.Keys = append(inv.Keys, k)
	}
	sort.Slice(inv.Keys, func(i, j int) bool { return inv.Keys[i] < inv.Keys[j] })
	for _, k := range inv.Keys {
		inv.Vals = append(inv.Vals, replies[k].GetResult())
	}
	if c == nil {
		mc.FailKey("harness/qf-unknown-call", method, "quorum function %s invoked with request %q of no known call", method, in.GetValue())
		return inv
	}
	mc.Yield("qf.enter", &c.obj)
	inv.SameReq = in == c.Req
	c.qfIn++
	inv.Overlap = c.qfIn
	if c.qfIn > c.QFMax {
		c.QFMax = c.qfIn
	}
	inv.AfterRet = c.Returned && !IsAsync(c.Kind) && !IsCorrectable(c.Kind)
	if c.Verdict != nil {
		c.Verdict(inv)
	} else {
		inv.Quorum = len(inv.Keys) >= 1
		inv.Level = len(inv.Keys)
	}
	c.QF = append(c.QF, inv)
	mc.Yield("qf.exit", &c.obj)
	c.qfIn--
	return inv
}

// RetStamp is the Result value of the value a puppet quorum function returns.
func RetStamp(tok, ninv int) int64 { return 900_000_000 + int64(tok)*1000 + int64(ninv) }

func (q *QSpec) plain(method string, in *dev.Request, replies map[uint32]*dev.Response) (*dev.Response, *QFInv) {
	inv := q.inv(method, in, replies)
	var ret *dev.Response
	if inv.Quorum || inv.Level > gorums.LevelNotSet {
		c := q.w.CallByTok(TokOf(in.GetValue()))
		n := 0
		if c != nil {
			n = len(c.QF)
		}
		ret = &dev.Response{Result: RetStamp(TokOf(in.GetValue()), n)}
		inv.Ret = ret
	}
	return ret, inv
}

func (q *QSpec) custom(method string, in *dev.Request, replies map[uint32]*dev.Response) (*dev.MyResponse, *QFInv) {
	inv := q.inv(method, in, replies)
	var ret *dev.MyResponse
	if inv.Quorum || inv.Level > gorums.LevelNotSet {
		ret = &dev.MyResponse{Value: fmt.Sprintf("%s:%v", in.GetValue(), inv.Vals)}
		inv.Ret = ret
	}
	return ret, inv
}

func (q *QSpec) QuorumCallQF(in *dev.Request, r map[uint32]*dev.Response) (*dev.Response, bool) {
	ret, inv := q.plain("QuorumCall", in, r)
	return ret, inv.Quorum
}
func (q *QSpec) QuorumCallPerNodeArgQF(in *dev.Request, r map[uint32]*dev.Response) (*dev.Response, bool) {
	ret, inv := q.plain("QuorumCallPerNodeArg", in, r)
	return ret, inv.Quorum
}
func (q *QSpec) QuorumCallCustomReturnTypeQF(in *dev.Request, r map[uint32]*dev.Response) (*dev.MyResponse, bool) {
	ret, inv := q.custom("QuorumCallCustomReturnType", in, r)
	return ret, inv.Quorum
}
func (q *QSpec) QuorumCallComboQF(in *dev.Request, r map[uint32]*dev.Response) (*dev.MyResponse, bool) {
	ret, inv := q.custom("QuorumCallCombo", in, r)
	return ret, inv.Quorum
}
func (q *QSpec) QuorumCallEmptyQF(in *emptypb.Empty, r map[uint32]*dev.Response) (*dev.Response, bool) {
	return &dev.Response{Result: int64(len(r))}, len(r) >= 1
}
func (q *QSpec) QuorumCallEmpty2QF(in *dev.Request, r map[uint32]*emptypb.Empty) (*emptypb.Empty, bool) {
	return &emptypb.Empty{}, len(r) >= 1
}
func (q *QSpec) QuorumCallAsyncQF(in *dev.Request, r map[uint32]*dev.Response) (*dev.Response, bool) {
	ret, inv := q.plain("QuorumCallAsync", in, r)
	return ret, inv.Quorum
}
func (q *QSpec) QuorumCallAsyncPerNodeArgQF(in *dev.Request, r map[uint32]*dev.Response) (*dev.Response, bool) {
	ret, inv := q.plain("QuorumCallAsyncPerNodeArg", in, r)
	return ret, inv.Quorum
}
func (q *QSpec) QuorumCallAsyncCustomReturnTypeQF(in *dev.Request, r map[uint32]*dev.Response) (*dev.MyResponse, bool) {
	ret, inv := q.custom("QuorumCallAsyncCustomReturnType", in, r)
	return ret, inv.Quorum
}
func (q *QSpec) QuorumCallAsyncComboQF(in *dev.Request, r map[uint32]*dev.Response) (*dev.MyResponse, bool) {
	ret, inv := q.custom("QuorumCallAsyncCombo", in, r)
	return ret, inv.Quorum
}
func (q *QSpec) QuorumCallAsync2QF(in *dev.Request, r map[uint32]*dev.Response) (*dev.Response, bool) {
	ret, inv := q.plain("QuorumCallAsync2", in, r)
	return ret, inv.Quorum
}
func (q *QSpec) QuorumCallAsyncEmptyQF(in *dev.Request, r map[uint32]*emptypb.Empty) (*emptypb.Empty, bool) {
	return &emptypb.Empty{}, len(r) >= 1
}
func (q *QSpec) QuorumCallAsyncEmpty2QF(in *emptypb.Empty, r map[uint32]*dev.Response) (*dev.Response, bool) {
	return &dev.Response{Result: int64(len(r))}, len(r) >= 1
}
func (q *QSpec) CorrectableQF(in *dev.Request, r map[uint32]*dev.Response) (*dev.Response, int, bool) {
	ret, inv := q.plain("Correctable", in, r)
	return ret, inv.Level, inv.Quorum
}
func (q *QSpec) CorrectablePerNodeArgQF(in *dev.Request, r map[uint32]*dev.Response) (*dev.Response, int, bool) {
	ret, inv := q.plain("CorrectablePerNodeArg", in, r)
	return ret, inv.Level, inv.Quorum
}
func (q *QSpec) CorrectableCustomReturnTypeQF(in *dev.Request, r map[uint32]*dev.Response) (*dev.MyResponse, int, bool) {
	ret, inv := q.custom("CorrectableCustomReturnType", in, r)
	return ret, inv.Level, inv.Quorum
}
func (q *QSpec) CorrectableComboQF(in *dev.Request, r map[uint32]*dev.Response) (*dev.MyResponse, int, bool) {
	ret, inv := q.custom("CorrectableCombo", in, r)
	return ret, inv.Level, inv.Quorum
}
func (q *QSpec) CorrectableEmptyQF(in *dev.Request, r map[uint32]*emptypb.Empty) (*emptypb.Empty, int, bool) {
	return &emptypb.Empty{}, len(r), len(r) >= 1
}
func (q *QSpec) CorrectableEmpty2QF(in *emptypb.Empty, r map[uint32]*dev.Response) (*dev.Response, int, bool) {
	return &dev.Response{Result: int64(len(r))}, len(r), len(r) >= 1
}
func (q *QSpec) CorrectableStreamQF(in *dev.Request, r map[uint32]*dev.Response) (*dev.Response, int, bool) {
	ret, inv := q.plain("CorrectableStream", in, r)
	return ret, inv.Level, inv.Quorum
}
func (q *QSpec) CorrectableStreamPerNodeArgQF(in *dev.Request, r map[uint32]*dev.Response) (*dev.Response, int, bool) {
	ret, inv := q.plain("CorrectableStreamPerNodeArg", in, r)
	return ret, inv.Level, inv.Quorum
}
func (q *QSpec) CorrectableStreamCustomReturnTypeQF(in *dev.Request, r map[uint32]*dev.Response) (*dev.MyResponse, int, bool) {
	ret, inv := q.custom("CorrectableStreamCustomReturnType", in, r)
	return ret, inv.Level, inv.Quorum
}
func (q *QSpec) CorrectableStreamComboQF(in *dev.Request, r map[uint32]*dev.Response) (*dev.MyResponse, int, bool) {
	ret, inv := q.custom("CorrectableStreamCombo", in, r)
	return ret, inv.Level, inv.Quorum
}
func (q *QSpec) CorrectableStreamEmptyQF(in *dev.Request, r map[uint32]*emptypb.Empty) (*emptypb.Empty, int, bool) {
	return &emptypb.Empty{}, len(r), len(r) >= 1
}
func (q *QSpec) CorrectableStreamEmpty2QF(in *emptypb.Empty, r map[uint32]*dev.Response) (*dev.Response, int, bool) {
	return &dev.Response{Result: int64(len(r))}, len(r), len(r) >= 1
}

// NewSpec returns a quorum specification bound to w (for checks that need one without a full world).
func NewSpec(w *W) *QSpec { return &QSpec{w: w} }
