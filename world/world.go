// Package world holds what every E1 scenario shares: the fake endpoints with
// their puppet servers, the puppet quorum specification, stamped replies, the
// event log, gates, and a generic invoker for every call type of the generated
// zorums API. Oracles are written against the event log and call records.
package world

import (
	"context"
	"fmt"
	"sort"
	"strconv"
	"strings"
	"time"

	"github.com/relab/gorums"
	"github.com/relab/gorums/cmd/protoc-gen-gorums/dev"
	"google.golang.org/grpc"
	"google.golang.org/grpc/backoff"
	"google.golang.org/grpc/metadata"

	"verif/mc"
	"verif/mc/fakegrpc"
	"verif/mc/mcctx"
)

// Opts configures a world.
type Opts struct {
	N            int    // endpoints
	Window       int    // transport window (frames) per direction
	SendBuffer   uint   // manager send buffer
	RecvBuffer   uint   // server receive buffer
	Down         []bool // endpoint initially down
	BlockingDial bool
	Metadata     bool // general metadata {general: g}
	PerNodeMD    bool // per-node metadata {node: n<id>}
	ConnectCB    bool // servers count connect callbacks
	ExtraMgrOpts []gorums.ManagerOption
	Branching    bool // true: do not suppress branching during set-up
	NoConfig     bool // do not create the all-nodes configuration
}

// Event is one entry of the deterministic observation log.
type Event struct {
	Kind    string // enter, exit, release, sent, qf, accept, callback
	Node    int    // 1-based endpoint index
	Conn    int    // transport stream id
	Inc     int    // incarnation of the endpoint
	Method  string
	Tok     int
	Payload string
	Seq     int
}

func (e Event) String() string {
	return fmt.Sprintf("%s n%d c%d i%d %s t%d %q #%d", e.Kind, e.Node, e.Conn, e.Inc, e.Method, e.Tok, e.Payload, e.Seq)
}

// W is the per-execution world.
type W struct {
	O      Opts
	FW     *fakegrpc.World
	Addrs  []string
	IDs    []uint32
	Mgr    *dev.Manager
	Cfg    *dev.Configuration
	Spec   *QSpec
	Events []Event
	Calls  []*Call
	gates  []string
	gateO  int // scheduling object for gates
	srvO   []int
	// Handle decides what a puppet handler does; nil means reply with value 0.
	Handle func(h *HCtx) Reply
	// Accepts / callbacks per node (1-based index)
	Accepted  []int
	Callbacks []int
	servers   []*serverInc
}

type serverInc struct {
	inc int
	srv *gorums.Server
}

// Stamp builds the reply value that identifies (call token, node, sequence number, value digit).
func Stamp(tok, node, seq, val int) int64 {
	return int64(tok)*1_000_000 + int64(node)*10_000 + int64(seq)*10 + int64(val)
}

// Unstamp splits a stamped value.
func Unstamp(v int64) (tok, node, seq, val int) {
	return int(v / 1_000_000), int(v / 10_000 % 100), int(v / 10 % 1000), int(v % 10)
}

// TokOf parses the call token from a request payload "t<tok>" or "t<tok>/n<id>".
func TokOf(payload string) int {
	if !strings.HasPrefix(payload, "t") {
		return -1
	}
	s := payload[1:]
	if i := strings.IndexByte(s, '/'); i >= 0 {
		s = s[:i]
	}
	n, err := strconv.Atoi(s)
	if err != nil {
		return -1
	}
	return n
}

// Addr returns the address of endpoint i (1-based).
func Addr(i int) string { return fmt.Sprintf("127.0.0.1:%d", 9000+i) }

// New builds endpoints, manager and the all-nodes configuration.
// Set-up runs without branching unless o.Branching is set.
func New(o Opts) *W {
	if o.Window == 0 {
		o.Window = 2
	}
	w := &W{O: o, FW: fakegrpc.NewWorld(o.Window)}
	w.FW.BlockingDial = o.BlockingDial
	w.Spec = &QSpec{w: w}
	w.srvO = make([]int, o.N+1)
	w.Accepted = make([]int, o.N+1)
	w.Callbacks = make([]int, o.N+1)
	w.servers = make([]*serverInc, o.N+1)
	nodeMap := map[string]uint32{}
	for i := 1; i <= o.N; i++ {
		addr := Addr(i)
		w.Addrs = append(w.Addrs, addr)
		w.IDs = append(w.IDs, uint32(i))
		nodeMap[addr] = uint32(i)
		i := i
		up := !(len(o.Down) >= i && o.Down[i-1])
		w.FW.AddEndpoint(addr, up, func(inc int, ss grpc.ServerStream) error {
			return w.serve(i, inc, ss)
		})
	}
	if !o.Branching {
		mc.NoBranch(true)
	}
	var mopts []gorums.ManagerOption
	if o.SendBuffer > 0 {
		mopts = append(mopts, gorums.WithSendBufferSize(o.SendBuffer))
	}
	if o.Metadata {
		mopts = append(mopts, gorums.WithMetadata(metadata.New(map[string]string{"general": "g"})))
	}
	if o.PerNodeMD {
		mopts = append(mopts, gorums.WithPerNodeMetadata(func(id uint32) metadata.MD {
			return metadata.New(map[string]string{"node": fmt.Sprintf("n%d", id)})
		}))
	}
	mopts = append(mopts, gorums.WithBackoff(backoff.Config{BaseDelay: BackoffBase, Multiplier: 2, Jitter: 0, MaxDelay: 8 * BackoffBase}))
	mopts = append(mopts, o.ExtraMgrOpts...)
	w.Mgr = dev.NewManager(mopts...)
	if !o.NoConfig {
		cfg, err := w.Mgr.NewConfiguration(w.Spec, gorums.WithNodeMap(nodeMap))
		if err != nil {
			mc.Fail("setup", "NewConfiguration: %v", err)
		}
		w.Cfg = cfg
		mc.Quiesce()
	}
	if !o.Branching {
		mc.NoBranch(false)
	}
	return w
}

// SubConfig returns a configuration of the given endpoints (1-based indices).
func (w *W) SubConfig(nodes ...int) *dev.Configuration {
	ids := make([]uint32, len(nodes))
	for i, n := range nodes {
		ids[i] = uint32(n)
	}
	cfg, err := w.Mgr.NewConfiguration(w.Spec, gorums.WithNodeIDs(ids))
	if err != nil {
		mc.Fail("setup", "SubConfig: %v", err)
	}
	return cfg
}

// Node returns the generated node handle of endpoint i (1-based).
func (w *W) Node(i int) *dev.Node {
	for _, n := range w.Mgr.Nodes() {
		if n.ID() == uint32(i) {
			return n
		}
	}
	mc.Fail("setup", "node %d not in manager", i)
	return nil
}

func (w *W) serve(node, inc int, ss grpc.ServerStream) error {
	si := w.servers[node]
	if si == nil || si.inc != inc {
		var sopts []gorums.ServerOption
		if w.O.RecvBuffer > 0 {
			sopts = append(sopts, gorums.WithReceiveBufferSize(w.O.RecvBuffer))
		}
		if w.O.ConnectCB {
			sopts = append(sopts, gorums.WithConnectCallback(func(ctx context.Context) {
				st := fakegrpc.StreamOf(ctx)
				w.Event(&w.srvO[node], Event{Kind: "callback", Node: node, Conn: st.ID, Inc: st.Inc})
				w.Callbacks[node]++
			}))
		}
		srv := gorums.NewServer(sopts...)
		dev.RegisterZorumsServiceServer(srv, &Puppet{w: w, node: node})
		si = &serverInc{inc: inc, srv: srv}
		w.servers[node] = si
		mc.RaceRelease(mc.Ptr(&w.srvO[node])) // a real server is set up before it accepts any stream
	} else {
		mc.RaceAcquire(mc.Ptr(&w.srvO[node]))
	}
	st := fakegrpc.StreamOf(ss.Context())
	w.Event(&w.srvO[node], Event{Kind: "accept", Node: node, Conn: st.ID, Inc: inc, Payload: mdString(st.MD)})
	w.Accepted[node]++
	return gorums.VerifServe(si.srv, ss)
}

// RegisterLate registers one more (unused) handler on the running server of endpoint node, as a program
// that adds a service after it has started serving would.
func (w *W) RegisterLate(node int, method string) {
	if si := w.servers[node]; si != nil {
		si.srv.RegisterHandler(method, func(gorums.ServerCtx, *gorums.Message, chan<- *gorums.Message) {})
	}
}

func mdString(md metadata.MD) string {
	var ks []string
	for k, v := range md {
		ks = append(ks, k+"="+strings.Join(v, ","))
	}
	sort.Strings(ks)
	return strings.Join(ks, ";")
}

// Event appends to the log after a visible write on obj, so that the order of
// log entries that share obj is part of the explored partial order.
func (w *W) Event(obj any, e Event) {
	if mc.Killing() {
		return
	}
	mc.Yield("log."+e.Kind, obj)
	w.Events = append(w.Events, e)
	mc.Observe(fmt.Sprintf("%s n%d c%d %s t%d %s", e.Kind, e.Node, e.Conn, e.Method, e.Tok, e.Payload))
	mc.HarnessRelease()
}

// ---- gates ----

// Open opens gate g (a visible write on the gate object).
func (w *W) Open(g string) {
	if mc.Killing() {
		return
	}
	mc.Yield("gate.open", &w.gateO)
	w.gates = append(w.gates, g)
	mc.RaceRelease(mc.Ptr(&w.gateO))
}

// IsOpen reports whether g has been opened (no scheduling point).
func (w *W) IsOpen(g string) bool {
	for _, o := range w.gates {
		if o == g {
			return true
		}
	}
	return false
}

// Wait blocks the calling thread until g is open.
func (w *W) Wait(g string) {
	mc.Await("gate.wait", &w.gateO, func() bool { return w.IsOpen(g) })
	mc.RaceAcquire(mc.Ptr(&w.gateO))
}

// Block parks the calling thread forever.
func Block() {
	var o int
	mc.Await("never", &o, func() bool { return false })
}

// BackoffBase is the back-off base delay configured on every manager.
const BackoffBase = time.Second

// ---- calls ----

// Call describes one client invocation and records what it observed.
type Call struct {
	Tok           int
	Kind          string // generated method name, e.g. "QuorumCall", "GRPCCall", "Unicast"
	Node          int    // target endpoint for GRPCCall / Unicast (1-based)
	Cfg           *dev.Configuration
	Req           *dev.Request
	Req0          string // the request's value at creation (MutateInPlace changes Req if the library hands out no copy)
	Ctx           context.Context
	cancel        func(error)
	Skip          []int // per-node function returns nil for these endpoints (1-based)
	Empty         []int // per-node function returns a valid message with every field at its default for these endpoints
	MutateInPlace bool  // the per-node function changes the message it is given and returns it (it is documented to receive a copy)
	Scribble      bool  // the per-node function reads its argument, overwrites it, and returns a fresh message (or nil for a skipped node)
	NoSendWaiting bool
	// Hook, if set, runs at the start of every invocation of the per-node function.
	Hook func(id uint32)
	// Verdict is the quorum function's decision for one invocation (nil: threshold 1).
	Verdict func(inv *QFInv)

	Issued   bool
	Returned bool
	Resp     any // *dev.Response / *dev.MyResponse (sync calls)
	Err      error
	Fut      AsyncFut
	Corr     CorrHandle
	QF       []*QFInv
	qfIn     int
	QFMax    int
	obj      int
}

// AsyncFut is the common surface of the generated Async* types.
type AsyncFut interface {
	Done() bool
}

// CorrHandle is the common surface of the generated Correctable* types.
type CorrHandle interface {
	Done() <-chan struct{}
	Watch(level int) <-chan struct{}
}

// QFInv records one quorum-function invocation.
type QFInv struct {
	Method   string
	SameReq  bool
	Keys     []uint32
	Vals     []int64
	Overlap  int  // invocations of this call's QF in flight, this one included
	AfterRet bool // invoked after the call had returned
	// verdict
	Quorum bool
	Level  int
	Ret    any // the pointer handed back to the library
}

func (i *QFInv) String() string {
	return fmt.Sprintf("%v=%v->q=%v,l=%d", i.Keys, i.Vals, i.Quorum, i.Level)
}

// NewCall registers a call with a fresh token and a cancellable context.
func (w *W) NewCall(kind string) *Call {
	c := &Call{Tok: len(w.Calls) + 1, Kind: kind, Cfg: w.Cfg}
	c.Req = &dev.Request{Value: fmt.Sprintf("t%d", c.Tok)}
	c.Req0 = c.Req.Value
	c.Ctx, c.cancel = mcctx.WithCancelErr(context.Background())
	w.Calls = append(w.Calls, c)
	return c
}

// Cancel ends the call's context with err.
func (c *Call) Cancel(err error) { c.cancel(err) }

func (c *Call) skips(node int) bool {
	for _, s := range c.Skip {
		if s == node {
			return true
		}
	}
	return false
}

// PerNode is the per-node function used for calls that take one.
func (c *Call) PerNode(r *dev.Request, id uint32) *dev.Request {
	if c.Hook != nil {
		c.Hook(id)
	}
	if c.Scribble {
		val := r.Value
		r.Value = fmt.Sprintf("scribbled-by-%d", id) // its own copy: nobody else may ever see this
		if c.skips(int(id)) {
			return nil
		}
		return &dev.Request{Value: fmt.Sprintf("%s/n%d", val, id)}
	}
	if c.skips(int(id)) {
		return nil
	}
	for _, e := range c.Empty {
		if e == int(id) {
			return &dev.Request{} // a legal message: node id must receive it
		}
	}
	if c.MutateInPlace {
		r.Value = fmt.Sprintf("%s/n%d", c.Req0, id)
		return r
	}
	return &dev.Request{Value: fmt.Sprintf("%s/n%d", r.Value, id)}
}

// Targets returns the endpoints the call addresses (1-based), after skips.
func (c *Call) Targets() []int {
	var out []int
	if c.Node != 0 {
		return []int{c.Node}
	}
	for _, id := range c.Cfg.NodeIDs() {
		if HasPerNode(c.Kind) && c.skips(int(id)) {
			continue
		}
		out = append(out, int(id))
	}
	return out
}

// HasPerNode reports whether the generated method takes a per-node function.
func HasPerNode(kind string) bool {
	return strings.Contains(kind, "PerNodeArg") || strings.Contains(kind, "Combo")
}

// IsCustom reports whether the method has a custom return type.
func IsCustom(kind string) bool {
	return strings.Contains(kind, "CustomReturnType") || strings.Contains(kind, "Combo")
}

// Start runs the call in a new client thread.
func (w *W) Start(c *Call) {
	mc.GoNamed(fmt.Sprintf("client-t%d", c.Tok), func() { w.Invoke(c) })
}

// Invoke performs the call on the calling thread.
func (w *W) Invoke(c *Call) {
	ctx := c.Ctx
	var opts []gorums.CallOption
	if c.NoSendWaiting {
		opts = append(opts, gorums.WithNoSendWaiting())
	}
	mc.Yield("call.issue", &c.obj)
	c.Issued = true
	var resp any
	var err error
	switch c.Kind {
	case "GRPCCall":
		var r *dev.Response
		r, err = w.Node(c.Node).GRPCCall(ctx, c.Req)
		if r != nil {
			resp = r
		}
	case "QuorumCall":
		resp, err = nz(c.Cfg.QuorumCall(ctx, c.Req))
	case "QuorumCallPerNodeArg":
		resp, err = nz(c.Cfg.QuorumCallPerNodeArg(ctx, c.Req, c.PerNode))
	case "QuorumCallCustomReturnType":
		resp, err = nzm(c.Cfg.QuorumCallCustomReturnType(ctx, c.Req))
	case "QuorumCallCombo":
		resp, err = nzm(c.Cfg.QuorumCallCombo(ctx, c.Req, c.PerNode))
	case "QuorumCallAsync":
		c.Fut = c.Cfg.QuorumCallAsync(ctx, c.Req)
	case "QuorumCallAsync2":
		c.Fut = c.Cfg.QuorumCallAsync2(ctx, c.Req)
	case "QuorumCallAsyncPerNodeArg":
		c.Fut = c.Cfg.QuorumCallAsyncPerNodeArg(ctx, c.Req, c.PerNode)
	case "QuorumCallAsyncCustomReturnType":
		c.Fut = c.Cfg.QuorumCallAsyncCustomReturnType(ctx, c.Req)
	case "QuorumCallAsyncCombo":
		c.Fut = c.Cfg.QuorumCallAsyncCombo(ctx, c.Req, c.PerNode)
	case "Correctable":
		c.Corr = c.Cfg.Correctable(ctx, c.Req)
	case "CorrectablePerNodeArg":
		c.Corr = c.Cfg.CorrectablePerNodeArg(ctx, c.Req, c.PerNode)
	case "CorrectableCustomReturnType":
		c.Corr = c.Cfg.CorrectableCustomReturnType(ctx, c.Req)
	case "CorrectableCombo":
		c.Corr = c.Cfg.CorrectableCombo(ctx, c.Req, c.PerNode)
	case "CorrectableStream":
		c.Corr = c.Cfg.CorrectableStream(ctx, c.Req)
	case "CorrectableStreamPerNodeArg":
		c.Corr = c.Cfg.CorrectableStreamPerNodeArg(ctx, c.Req, c.PerNode)
	case "CorrectableStreamCustomReturnType":
		c.Corr = c.Cfg.CorrectableStreamCustomReturnType(ctx, c.Req)
	case "CorrectableStreamCombo":
		c.Corr = c.Cfg.CorrectableStreamCombo(ctx, c.Req, c.PerNode)
	case "Multicast":
		c.Cfg.Multicast(ctx, c.Req, opts...)
	case "Multicast2":
		c.Cfg.Multicast2(ctx, c.Req, opts...)
	case "MulticastPerNodeArg":
		c.Cfg.MulticastPerNodeArg(ctx, c.Req, c.PerNode, opts...)
	case "Unicast":
		w.Node(c.Node).Unicast(ctx, c.Req, opts...)
	case "Unicast2":
		w.Node(c.Node).Unicast2(ctx, c.Req, opts...)
	default:
		panic("world: unknown call kind " + c.Kind)
	}
	if mc.Killing() {
		return
	}
	mc.Yield("call.return", &c.obj)
	c.Resp, c.Err = resp, err
	c.Returned = true
	mc.Observe(fmt.Sprintf("return t%d err=%v", c.Tok, err != nil))
	mc.HarnessRelease()
}

func nz(r *dev.Response, err error) (any, error) {
	if r == nil {
		return nil, err
	}
	return r, err
}

func nzm(r *dev.MyResponse, err error) (any, error) {
	if r == nil {
		return nil, err
	}
	return r, err
}

// IsAsync / IsCorrectable / IsOneWay classify call kinds.
func IsAsync(kind string) bool       { return strings.HasPrefix(kind, "QuorumCallAsync") }
func IsCorrectable(kind string) bool { return strings.HasPrefix(kind, "Correctable") }
func IsStream(kind string) bool      { return strings.HasPrefix(kind, "CorrectableStream") }
func IsOneWay(kind string) bool {
	return strings.HasPrefix(kind, "Multicast") || strings.HasPrefix(kind, "Unicast")
}
func IsSyncQC(kind string) bool {
	return strings.HasPrefix(kind, "QuorumCall") && !IsAsync(kind)
}

// AsyncGet calls the typed Get of an async future and returns (value or nil, error).
func AsyncGet(f AsyncFut) (any, error) {
	switch x := f.(type) {
	case *dev.AsyncResponse:
		return nz(x.Get())
	case *dev.AsyncMyResponse:
		return nzm(x.Get())
	}
	panic("world: unknown future type")
}

// CorrGet calls the typed Get of a correctable.
func CorrGet(h CorrHandle) (any, int, error) {
	switch x := h.(type) {
	case *dev.CorrectableResponse:
		r, l, err := x.Get()
		v, _ := nz(r, nil)
		return v, l, err
	case *dev.CorrectableMyResponse:
		r, l, err := x.Get()
		v, _ := nzm(r, nil)
		return v, l, err
	case *dev.CorrectableStreamResponse:
		r, l, err := x.Get()
		v, _ := nz(r, nil)
		return v, l, err
	case *dev.CorrectableStreamMyResponse:
		r, l, err := x.Get()
		v, _ := nzm(r, nil)
		return v, l, err
	}
	panic("world: unknown correctable type")
}

// CorrRawGet calls the untyped Get of the embedded gorums.Correctable.
func CorrRawGet(h CorrHandle) (any, int, error) {
	var c *gorums.Correctable
	switch x := h.(type) {
	case *dev.CorrectableResponse:
		c = x.Correctable
	case *dev.CorrectableMyResponse:
		c = x.Correctable
	case *dev.CorrectableStreamResponse:
		c = x.Correctable
	case *dev.CorrectableStreamMyResponse:
		c = x.Correctable
	default:
		panic("world: unknown correctable type")
	}
	r, l, err := c.Get()
	if r == nil {
		return nil, l, err
	}
	return r, l, err
}

// CallByTok finds a call record.
func (w *W) CallByTok(tok int) *Call {
	if tok >= 1 && tok <= len(w.Calls) {
		return w.Calls[tok-1]
	}
	return nil
}

// EventsOf returns the events of one kind, optionally restricted to a node (0 = all).
func (w *W) EventsOf(kind string, node int) []Event {
	var out []Event
	for _, e := range w.Events {
		if e.Kind == kind && (node == 0 || e.Node == node) {
			out = append(out, e)
		}
	}
	return out
}

// Entered reports how many times a handler for token tok entered on node.
func (w *W) Entered(node, tok int) int {
	n := 0
	for _, e := range w.Events {
		if e.Kind == "enter" && e.Node == node && e.Tok == tok {
			n++
		}
	}
	return n
}

// Routers returns the number of response routers the client keeps for endpoint i.
func (w *W) Routers(i int) int {
	n := w.Node(i)
	if n == nil {
		return 0
	}
	return gorums.VerifRouters(n.RawNode)
}

// LibThreads lists the live threads that were spawned by library code.
func LibThreads() []string {
	var out []string
	for _, t := range mc.LiveThreads() {
		if strings.HasPrefix(t.Name, "gorums.") || strings.HasPrefix(t.Name, "dev.") {
			out = append(out, t.Name+":"+t.Pending)
		}
	}
	sort.Strings(out)
	return out
}

// Client is an additional manager (a separate client connection per node).
type Client struct {
	Mgr *dev.Manager
	Cfg *dev.Configuration
}

// NewClient creates another manager with a configuration of all endpoints.
func (w *W) NewClient() *Client {
	nodeMap := map[string]uint32{}
	for i := 1; i <= w.O.N; i++ {
		nodeMap[Addr(i)] = uint32(i)
	}
	var mopts []gorums.ManagerOption
	if w.O.SendBuffer > 0 {
		mopts = append(mopts, gorums.WithSendBufferSize(w.O.SendBuffer))
	}
	mopts = append(mopts, gorums.WithBackoff(backoff.Config{BaseDelay: BackoffBase, Multiplier: 2, Jitter: 0, MaxDelay: 8 * BackoffBase}))
	m := dev.NewManager(mopts...)
	cfg, err := m.NewConfiguration(w.Spec, gorums.WithNodeMap(nodeMap))
	if err != nil {
		mc.Fail("setup", "NewClient: %v", err)
	}
	return &Client{Mgr: m, Cfg: cfg}
}

// LockWaiters describes the library threads that are blocked on a lock (not on a
// channel or the transport): the signature of a wedge. Empty when none is.
func LockWaiters() string {
	var out []string
	for _, t := range mc.LiveThreads() {
		if !(strings.HasPrefix(t.Name, "gorums.") || strings.HasPrefix(t.Name, "dev.")) {
			continue
		}
		switch t.Pending {
		case "mutex.Lock", "rw.Lock.acquire", "rw.Lock.announce", "rw.RLock":
			out = append(out, t.Name+"@"+t.Pending)
		}
	}
	sort.Strings(out)
	return strings.Join(out, ",")
}
