#!/usr/bin/env python3
"""Prints one line per check from the evidence files: instances, executions, states, transitions, wall time, bound."""
import json, sys, os
root = sys.argv[1] if len(sys.argv) > 1 else '/verif/evidence'
for i in range(1, 20):
    cid = f"C{i:02d}"
    try:
        e = json.load(open(os.path.join(root, cid + '.json')))
    except Exception as ex:
        print(cid, 'no evidence', ex); continue
    c = e['coverage']
    print(f"{cid} tier={e.get('tier')} instances={c.get('instances')} executions={c.get('traces_validated_against_impl')} states={c.get('states')} "
          f"transitions={c.get('transitions')} outcomes={c.get('distinct_nontrivial')} bound={c.get('deviation_bound_target')} "
          f"exhaustive={c.get('exhaustive')} wall={e.get('wall_s'):.1f}s violations={e.get('violations')}")
