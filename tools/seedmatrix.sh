#!/bin/bash
# Runs every seeded change against the check(s) named in its meta.json (property + also_breaks that are marked as catching)
# and prints one line per (seed, check): DETECTED / MISSED. Applies each patch to /repo and reverts it.
cd ${VERIF_DIR:-/verif}
for d in ${SEEDS:-seeded/*/}; do
  id=$(basename $d)
  checks=$(python3 - "$d" <<'PY'
import json,sys
m=json.load(open(sys.argv[1]+'meta.json'))
cs=[m['property']]
det=json.dumps(m.get('detection',{}))
for c in m.get('also_breaks',[]):
    if c not in cs: cs.append(c)
# a seed documented as not detectable by its own property check is expected to be caught by the others
print(' '.join(cs))
PY
)
  for c in $checks; do
    # seeds that a later repair of /repo has made benign (or unreachable for a check) are listed, not run
    if python3 -c "import json,sys; m=json.load(open('$d/meta.json')); sys.exit(0 if m.get('obsolete_on_current_tree') and '$c' not in m.get('still_detected_by',[]) else 1)"; then
      echo "$id $c OBSOLETE (see meta.json note)"; continue
    fi
    out=$(tools/mutant.sh $d/patch.diff $c 2>&1)
    if echo "$out" | grep -q "^VIOLATION property=$c"; then r=DETECTED; else r=MISSED; fi
    echo "$id $c $r $(echo "$out" | grep -m1 -o 'rule=[^ ]*') $( [ $r = MISSED ] && echo "$out" | tail -2 | tr '\n' ' ' | cut -c1-200)"
  done
done
