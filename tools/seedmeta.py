#!/usr/bin/env python3
# usage: tools/seedmeta.py <seed-id> <summary> <needs> <first_run> [<strengthening>]
import json,sys
id=sys.argv[1]; p='/verif/seeded/%s/meta.json'%id; m=json.load(open(p))
m['summary'],m['needs_to_manifest']=sys.argv[2],sys.argv[3]
m['detection']['first_run']=sys.argv[4]; m['detection']['strengthening']=sys.argv[5] if len(sys.argv)>5 else ''
json.dump(m,open(p,'w'),indent=1)
