#!/bin/bash
# usage: tools/saveseed.sh <srcdir> <seed-id> <place> <go test args...>
# Confirms the seed (tools/seedverify.sh) and, if confirmed, copies it to seeded/<seed-id>/ with a meta.json
# skeleton (summary / needs / detection are filled in afterwards with tools/seedmeta.py).
set -u
src=$1; id=$2; place=$3; shift 3
out=$(/verif/tools/seedverify.sh $src/patch.diff $src/demo_test.go $place "$@" 2>&1)
echo "$out" | tail -12
without=$(echo "$out" | sed -n '/== demo WITHOUT/,/== build/p' | grep -cE "^ok|^PASS")
with=$(echo "$out" | sed -n '/== demo WITH the/,/== baseline/p' | grep -cE "FAIL|panic|timed out")
base=$(echo "$out" | grep -c "baseline tests passing: 64/64")
build=$(echo "$out" | grep -c "build-ok")
echo "without-pass=$without with-fail=$with baseline=$base build=$build"
[ $without -ge 1 ] && [ $with -ge 1 ] && [ $base -ge 1 ] && [ $build -ge 1 ] || { echo "NOT CONFIRMED"; exit 1; }
d=/verif/seeded/$id; mkdir -p $d
cp $src/patch.diff $src/demo_test.go $d/; [ -f $src/NOTES.md ] && cp $src/NOTES.md $d/
[ -f $src/patch.orig.diff ] && cp $src/patch.orig.diff $d/
if [ -f $src/patch.diff.rebased ]; then cp $src/patch.diff $d/patch.orig.diff; mv $src/patch.diff.rebased $d/patch.diff; fi
python3 - "$id" "$place" "$*" <<'P'
import json,sys
id,place,args=sys.argv[1:4]
m={"id":id,"property":id[:3],"round":int(__import__("os").environ.get("SEEDROUND","9")),
 "origin":"independent sub-agent (batch "+__import__("os").environ.get("SEEDROUND","9")+": given only the property text and a scratch worktree; asked for two changes with different mechanisms)",
 "summary":"","needs_to_manifest":"",
 "confirmed":{"how":"tools/seedverify.sh seeded/%s/patch.diff seeded/%s/demo_test.go %s %s"%(id,id,place,args),
  "builds":True,"baseline_64_pass_with_change":True,"demo_fails_with_change":True,"demo_passes_without_change":True},
 "detection":{"first_run":"","strengthening":""}}
json.dump(m,open('/verif/seeded/%s/meta.json'%id,'w'),indent=1)
P
echo "SAVED $d"
