#!/usr/bin/env python3
"""Writes /verif/MANIFEST.json from the table below (kept in one place so it stays valid)."""
import json, os

ENV = "export GOFLAGS=-mod=mod GOPROXY=off GOSUMDB=off GOTOOLCHAIN=local; "
BASE_NOTE = ("Trusted base: the gomc runtime (cooperative scheduler + shims for sync, sync/atomic, channels, select, context, time), "
             "the fakegrpc transport model and the instrumenter (all under /verif, conformance-tested against the real runtime and grpc-go); "
             "interleavings are covered up to the deviation bound reported in the evidence, free choices exhaustively.")

CHECKS = {
 "C01": dict(cat="model_checking", ref="5.1", tech="stateless model checking of the real code (deviation-bounded schedule enumeration + exhaustive reply-history enumeration) against a reference reply loop",
   text="Every history of one quorum call (n<=3 nodes, 5 behaviours per node, 5 quorum functions, 8 call variants, 4 cancel modes, every arrival order) is executed on the instrumented real library under the gomc scheduler; within each history every schedule up to the deviation bound is explored. The quorum-function log and the returned value are compared with a reference reply loop (pointer identity of the returned value, exact reply-set snapshots, no invocation after quorum, no overlap)."),
 "C02": dict(cat="model_checking", ref="5.2", tech="stateless model checking of the real code; at every quiescent point the call must have returned iff quorum / exhaustion / context end holds in the reference model",
   text="Same executions as C01 with the termination oracle: at every quiescent point of every explored schedule the call (or future) is done iff the reference model says quorum, exhaustion (also with zero targeted nodes) or context end; the outcome class and the error/reply counts of Incomplete are compared with the model; async Get is stable."),
 "C14": dict(cat="model_checking", ref="5.14", engine="gomc-seq", tech="explicit-state BFS over API operation sequences on the real manager with a set-based reference model",
   text="Breadth-first search over sequences of configuration-building operations (depth 2 quick / 3 thorough) over an alphabet with duplicate and hash-colliding addresses, equal IDs, unknown IDs and both map iteration orders; every transition is executed on the real code (successor = replay of the shortest path on a fresh manager + one operation), states are deduplicated on a canonical (pool, configurations) form, and membership, order, Size/Nodes/NodeIDs agreement, Equal, pooling by pointer identity, operand immutability and address preservation are compared with a Go-set reference model in every state.",
   note="Trusted base: the BFS driver and the reference model in /verif/checks/c14.go; managers are created with WithNoConnect; map iteration order at the WithNodeMap range site is controlled through the instrumenter."),
 "C19": dict(cat="model_checking", ref="5.19", engine="gomc-seq", tech="exhaustive small-scope enumeration of inputs to the real sorter against a lexicographic reference comparison",
   text="Every slice of length 0..4 (5 thorough) over 8 node kinds (id x port x last error) crossed with every key sequence of length 1..3 over {ID, Port, LastNodeError} is sorted by the real OrderedBy(...).Sort and compared with the lexicographic reference order (permutation + adjacent pairs); each key is checked against the strict-weak-ordering axioms on all pairs and triples of kinds.",
   note="Trusted base: the enumerator and reference comparison in /verif/checks/c19.go; last errors are set through an accessor injected by overlay."),
 "C13": dict(cat="model_checking", ref="5.13", engine="gomc-seq", tech="exhaustive small-scope enumeration of codec inputs (all byte strings up to a length, structured mutations, every registry name) on the real codec, plus scheduled end-to-end runs",
   text="Round trip of every registered method x direction x message value x metadata (all status codes) through the real Codec; decoding of every byte string of length <= 2 (3 thorough) in both directions and of every prefix / byte substitution / length-prefix perturbation / part swap of valid frames, with every full name of the linked protobuf registry (all descriptor kinds) in the method field; end-to-end under the scheduler: every status code from a handler reaches RPC and quorum-call callers unchanged, and hostile frames injected into live client and server streams never panic a library thread.",
   note="Trusted base: enumerator in /verif/checks/c13.go; registry = what is linked into the harness (gorums, ordering, dev/zorums, well-known types, grpc status); end-to-end part uses the fakegrpc transport, which runs the real codec on every frame."),
 "C11": dict(cat="model_checking", ref="5.11", tech="stateless model checking of the real code: exhaustive event-history enumeration with observers after every event, compared with a reference model of the published (value, level, done) state; deviation-bounded schedule enumeration inside each event",
   text="Every history (replies, repeated stream replies, handler errors, stream ends, cancel, in every order, continuing after completion) of one correctable call over 4 (8 thorough) generated variants, n<=2, 5 level tables x done positions is executed on the instrumented library; after every event the script calls typed and raw Get, Done and 4 old + 4 new Watch levels and compares with the reference model (pointer identity of the published value, monotone levels, completion exactly when the model says, nothing changes afterwards, typed accessors never panic)."),
 "C03": dict(cat="model_checking", ref="5.3", tech="stateless model checking of the real client and server code under a controlled scheduler; per-server handler start order compared with the issue order",
   text="Every ordered pair of 11 call variants (and every triple of 7 representatives) issued by one client thread, or by two threads ordered by happens-before, with a straggler handler keeping earlier requests queued, send buffer {0,1,2} and transport window {1,3}; all schedules of senders, receivers and server streams within the deviation bound; oracle: on every server the handlers start in issue order, none twice, all targeted servers handle every call."),
 "C04": dict(cat="model_checking", ref="5.4", tech="stateless model checking of the real server loop with puppet handlers; event-log invariant 'no unreleased earlier handler at any handler start' per connection",
   text="Every triple of requests over 6 handler behaviours (return, gate, release early, release repeatedly, release from a helper goroutine, never release) on one connection, with and without a second client connection and a receive buffer, all gate orders and all schedules within the deviation bound; oracle on the per-connection event log: at every handler start no earlier handler of that connection is unreleased, replies of released handlers carry their own call's stamp, a never-releasing handler delays only its own connection."),
 "C05": dict(cat="model_checking", ref="5.5", tech="stateless model checking of concurrent callers on shared nodes with identity-stamped replies delivered in every order (also after return / cancel)",
   text="Two or three concurrent client threads on overlapping configurations of one manager, every ordered pair over 6 call kinds, with cancel events; every handler releases early and is gated so the script can deliver each reply at any position of the history, including after its call returned or was cancelled; oracle: every reply observed by a quorum function or returned carries the observer's token and the node id it is filed under, at most once per node, nothing after return, one message id per call."),
 "C06": dict(cat="model_checking", ref="5.6", tech="stateless model checking with exhaustive enumeration of per-node skip subsets and node states; payload equality per server and untimed 'returns without waiting' oracle at quiescence",
   text="Every skip subset of the per-node function for n<=3 on 9 per-node call variants and 6 plain ones with thresholds targeted / targeted+1: each server must receive exactly f(request, i) once, skipped servers nothing, and completion and the Incomplete counts range over targeted nodes only. One-way calls x send-waiting on/off x {idle, blocked handlers, endpoints down, window full}: the call has returned at the first quiescent point with every handler still running, and with no-send-waiting even when its own message cannot be written."),
 "C07": dict(cat="model_checking", ref="5.7", tech="stateless model checking with fault enumeration: every failing subset x failure kind, the fault placed before the call and as a free-running thread at every instant within the deviation bound",
   text="n in {2,3} x failing subsets x {down at creation, crash, reset, crash+restart, handler error with 5 status codes} x thresholds x healthy replies before/after the fault, with the fault thread scheduled at every point between visible operations of the library within the deviation bound; back-off timers are fired to a horizon before the progress oracle; oracle: success iff the healthy replies satisfy the quorum function, Incomplete names each failing node exactly once with the handler's status or an unavailable-type error and consistent counts, the quorum function never sees a failed node, no call is left waiting for a node whose connection broke."),
 "C08": dict(cat="model_checking", ref="5.8", tech="stateless model checking with the context end as a free-running thread placed at every instant within the deviation bound; strict untimed progress oracle at quiescence (deadlock detection)",
   text="9 (12) call variants x node state {down, silent, window full, sender busy behind an earlier message with a never-ending context} x send buffer x {Canceled, DeadlineExceeded} x {already ended, ended at any instant}; at the quiescent state after the context ended - no timer fired, no handler returned - the call must have returned / its future or correctable be done, and any reported error must match the context's error under errors.Is. A stuck caller is a deadlock state of the explored system, found deterministically."),
 "C09": dict(cat="model_checking", ref="5.9", tech="stateless model checking of workloads with free-running cancel / fault / timer threads, followed by a probe call; deadlock (wedge) detection at quiescence",
   text="Workloads of one or two calls (correctable streams with 1..3 server replies and early / never / slow quorum functions, cancelled quorum calls, futures, correctables, RPCs, multicasts; concurrent and sequential) with cancel threads, an optional stream reset or crash+restart and a timer-firing thread, all placed by the explorer at every instant within the deviation bound; afterwards all back-off timers are fired and a probe RPC with a fresh context must be delivered and answered with its own stamped reply, with no library thread left blocked on a lock."),
 "C12": dict(cat="model_checking", ref="5.12", tech="stateless model checking with Manager.Close as free-running thread(s) placed at every instant within the deviation bound relative to in-flight calls (crash-point style enumeration); thread-exit and deadlock oracles at quiescence",
   text="9 in-flight call variants with never-ending contexts (and pairs) x send buffer {0,1,2} x node state {connected, down, in back-off} x handler answers / never answers x one or two concurrent Close calls scheduled at every point between visible operations within the deviation bound, then a post-Close call of rotating type and a further Close; Close on a WithNoConnect manager. Oracle: no panic, every Close returns, every in-flight and post-Close call returns (error where the API has one), no client library goroutine alive and every connection closed at the end."),
 "C10": dict(cat="model_checking", ref="5.10", tech="stateless model checking with exhaustive enumeration of stop/start/call scripts (fault sequences) and virtual back-off timers that the script fires or withholds",
   text="Every script of length <= 4 (5) over {stop, start, call} ending in a call, node initially up or down (down at creation included), 3 call kinds, blocking and non-blocking dial, with the back-off timers fired after every event or never; observation after each call happens at quiescence without firing a timer. Oracle: the call is delivered to the node's current incarnation, its reply arrives without any back-off timer firing once the handler has returned, every accepted stream carries general and per-node metadata and triggers the connect callback exactly once."),
 "C18": dict(cat="model_checking", ref="5.18", tech="stateless model checking with a state oracle read through an accessor (router tables) and the scheduler's thread table (per-call goroutines) at quiescent points",
   text="9 (13) call variants x 7 ways of ending x send buffer, every call repeated twice on the same manager, all schedules within the deviation bound; after each round, once every targeted node has answered or its connection has failed, the router count of every node must be zero (one per round only for a node that never answers), no per-call goroutine may be alive, and nothing grows between rounds."),
 "C15": dict(cat="model_checking", ref="5.15 and 3.6", tech="stateless model checking under a -race build: schedules enumerated by the gomc scheduler, ThreadSanitizer as the per-execution oracle with scheduler hand-offs hidden and modelled happens-before edges announced",
   text="Eight concurrent API workloads (all call types, cancellations, configuration creation vs pool readers, shared And/Except operands, crash+restart, Close during traffic, Close vs re-dial, concurrently streaming released handlers) are explored within the deviation bound with the harness built with -race; the scheduler's own hand-offs are wrapped in RaceDisable so they create no happens-before edges, and every modelled primitive announces exactly the edges the Go memory model gives it, so the detector reports the pairs of accesses the library leaves unordered on every explored schedule. A report counts when both stacks contain a library frame.",
   note="Trusted base: gomc runtime incl. its race annotations (RaceAcquire/RaceRelease per primitive), ThreadSanitizer (bounded per-cell history), fakegrpc; module verif is compiled without race instrumentation."),
 "C16": dict(cat="model_checking", ref="5.16", engine="gencheck", tech="exhaustive small-scope enumeration of service definitions over the option lattice (requests synthesised from descriptors), plugin built from the working tree, legality reference model, go build of every emitted package, controlled map-iteration orders",
   text="Every one of the 512 option combinations x 4 message shapes as a single-method service, all 484 ordered pairs of legal combinations with shared and distinct types, reserved and unusual identifiers, run through the plugin built from the working tree; legal input must be accepted and its output must compile together with protoc-gen-go's output against /repo, documented-illegal input and reserved names must end in a diagnostic (never a Go panic, never silence), the rest must be rejected or compile; output must be byte-identical across repeated runs and across a family of map iteration orders imposed at the generator's map range sites.",
   note="Trusted base: descriptor synthesis and the legality model in /verif/cmd/gencheck/c16.go (transcribed from doc/method-options.md), protoc-gen-go from the module cache, the Go compiler; protoc itself is not installed, so its own validation of .proto syntax is not exercised."),
 "C17": dict(cat="model_checking", ref="5.17", engine="gencheck+gomc", tech="exhaustive comparison of every committed generated file with its regeneration (comment-free AST equality), static binding analysis of every stub against the descriptor, and execution of every generated call variant under the gomc harness",
   text="All 20 committed *_gorums.pb.go files and template_static.go are regenerated with the plugin built from the working tree (descriptors recovered from the committed .pb.go files) and compared as comment-free ASTs; for every method of every service, in committed and regenerated code, the stub's method literal, server registration, runtime entry point, receiver, per-node function and ServerStream flag are checked against the descriptor; each of the generated zorums call variants is executed against puppet servers and must reach the handler its descriptor names with the right payload and result type. The harness of all other checks is compiled against the regenerated stubs.",
   note="Trusted base: the descriptor embedded in each committed .pb.go is taken as the proto definition; AST normalisation by go/printer; for the dynamic half the gomc runtime and fakegrpc."),
}

NOT_YET = {}

def main():
    props = [json.loads(l)["id"] for l in open("/verif/properties.jsonl")]
    checks = []
    for pid in props:
        c = CHECKS.get(pid)
        if not c: continue
        checks.append({
            "property_id": pid,
            "quick_cmd": f"bin/verif check {pid} --tier quick",
            "thorough_cmd": f"bin/verif check {pid} --tier thorough",
            "evidence_file": f"/verif/evidence/{pid}.json",
            "replay_cmd_template": "bin/verif replay {path}",
            "engine": c.get("engine", "gomc"),
            "level_claimed": {"category": c["cat"], "text": c["text"], "design_ref": "DESIGN.md section " + c["ref"]},
            "level_note": c.get("note", BASE_NOTE),
            "technique": c["tech"],
        })
    na = [{"property_id": p, "reason": NOT_YET.get(p, "check not built yet in this revision of /verif (planned: see DESIGN.md section 5); not claimed until it runs")} for p in props if p not in CHECKS]
    m = {
        "version": 1,
        "setup_cmd": ENV + "cd /verif && go build -o bin/verif ./cmd/verif && bin/verif build --race && (bin/verif conformance > evidence/conformance.txt 2>&1 || echo 'conformance suite reported a disagreement or could not run: see evidence/conformance.txt')",
        "hooks": {
            "guard": "verif-overlay",
            "enable": "no source hooks in /repo: bin/verif instruments the working tree's files into .cache/build/<hash>/ov and builds the harness with `go build -overlay` (sync, sync/atomic, channel operations, select, go statements, context, time and grpc client calls are re-routed to the gomc runtime)",
            "baseline_off_cmd": "cd /repo && go test -vet=off -count=1 ./...",
            "source_commits": [],
            "add_only": True,
        },
        "engines": [
            {"name": "gomc", "path": "/verif/mc", "serves_properties": [p for p in props if p in CHECKS],
             "kind_free_text": "hand-written stateless model checker for Go: cooperative scheduler over instrumented real code, deviation-bounded DFS over schedules with happens-before fingerprint pruning, exhaustive free choices; sequential explicit-state / small-scope enumerators for the non-concurrent properties"},
        ],
        "checks": checks,
        "not_applicable": na,
        "notes": "All checks rebuild from /repo's working tree (hash-keyed cache under /verif/.cache). Exit 0 = held on everything explored (KNOWN-FINDING lines possible), 1 = VIOLATION, 3 = infrastructure error. See DESIGN.md.",
    }
    if not na: del m["not_applicable"]
    json.dump(m, open("/verif/MANIFEST.json", "w"), indent=1)
    print("checks:", len(checks), "not_applicable:", len(na))

main()
