#!/bin/bash
# Runs the repository's baseline test suite (guard off: no overlay) and prints pass/fail counts.
export GOFLAGS=-mod=mod GOPROXY=off GOSUMDB=off GOTOOLCHAIN=local
cd ${1:-/repo} && go test -mod=mod -json -vet=off -count=1 -timeout 25m ./... 2>/dev/null | python3 -c "
import sys, json
res={}
for l in sys.stdin:
    try: e=json.loads(l)
    except: continue
    if e.get('Action') in ('pass','fail') and e.get('Test'):
        res[e['Package']+'::'+e['Test']]=e['Action']
base=set(json.load(open('/root/.vp/BASELINE.json'))['stable_pass'])
bad=[t for t in base if res.get(t)!='pass']
print('baseline tests passing: %d/%d' % (len(base)-len(bad), len(base)))
for t in bad: print('  NOT PASSING:', t, res.get(t))
sys.exit(1 if bad else 0)
"
