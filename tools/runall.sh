#!/bin/bash
# Runs every claimed check (quick tier by default) and prints one summary line per check.
cd /verif
ids=${@:-$(python3 -c "import json; print(' '.join(c['property_id'] for c in json.load(open('MANIFEST.json'))['checks']))")}
rc=0
for id in $ids; do
  out=$(timeout 1800 bin/verif check $id --tier ${TIER:-quick} 2>&1); e=$?
  echo "$out" | grep -E "^(C[0-9]+ |VIOLATION|KNOWN-FINDING|INFRA|verif:)" | cut -c1-260
  [ $e -ne 0 ] && { echo "  -> exit $e"; rc=1; }
done
exit $rc
