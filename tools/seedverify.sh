#!/bin/bash
# usage: tools/seedverify.sh <patch> <demo_test.go> <place-relative-path> <go test args for the demo...>
# Confirms in a scratch worktree of /repo HEAD: with the patch the library builds, the baseline
# suite passes and the demo fails; without the patch the demo passes. Removes the worktree.
set -u
export GOFLAGS=-mod=mod GOPROXY=off GOSUMDB=off GOTOOLCHAIN=local
patch=$(realpath "$1"); demo=$(realpath "$2"); place=$3; shift 3
wt=/tmp/sv-$$
git -C /repo worktree add -q --detach $wt HEAD || exit 3
trap "git -C /repo worktree remove --force $wt" EXIT
cd $wt
mkdir -p $(dirname $place) && cp "$demo" $place
echo "== demo WITHOUT the change"
go test -vet=off -count=1 "$@" 2>&1 | tail -3
if ! git apply "$patch" 2>/dev/null; then
  # written for an earlier tree: three-way merge; the rebased patch is left next to the original
  git apply -3 "$patch" >/dev/null 2>&1 && ! git diff --name-only --diff-filter=U | grep -q . || { echo "PATCH DOES NOT APPLY"; exit 3; }
  git reset -q; git diff > "$patch.rebased"; echo "(rebased: $patch.rebased)"
fi
echo "== build with the change"; go build ./... && echo build-ok
echo "== demo WITH the change"
go test -vet=off -count=1 "$@" 2>&1 | tail -5
rm -f $place
echo "== baseline WITH the change"
/verif/tools/baseline.sh $wt
