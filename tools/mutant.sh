#!/bin/bash
# usage: tools/mutant.sh <patch-file> <check-id>... : applies the patch to /repo, runs the quick checks, reverts.
set -u
patch=$(realpath "$1"); shift
cd /repo || exit 3
if ! git diff --quiet; then echo "/repo has uncommitted changes"; exit 3; fi
git apply "$patch" || { echo "patch does not apply"; exit 3; }
trap 'git -C /repo checkout -- . ; git -C /repo clean -fdq' EXIT
cd /verif
for c in "$@"; do
  timeout 900 bin/verif check "$c" --tier ${TIER:-quick} 2>&1 | grep -E "^(VIOLATION|KNOWN|C[0-9]+ |violation|INFRA|verif:)" | cut -c1-400 | head -${LINES_MAX:-12}
  echo "exit=${PIPESTATUS[0]}"
done
