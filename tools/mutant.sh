#!/bin/bash
# usage: tools/mutant.sh <patch-file> <check-id>... : applies the patch to /repo, runs the quick checks, reverts.
set -u
patch=$(realpath "$1"); shift
cd /repo || exit 3
if ! git diff --quiet; then echo "/repo has uncommitted changes"; exit 3; fi
trap "git -C /repo reset -q --hard HEAD; git -C /repo clean -fdq" EXIT
git apply "$patch" 2>/dev/null || git apply -3 "$patch" || { echo "patch does not apply"; exit 3; }
git reset -q
cd /verif
for c in "$@"; do
  out=$(timeout 900 bin/verif check "$c" --tier ${TIER:-quick} 2>&1); e=$?
  echo "$out" | grep -E "^(violation|INFRA|verif:)" | cut -c1-400 | head -${LINES_MAX:-8}
  echo "$out" | grep -E "^(VIOLATION|KNOWN|C[0-9]+ )" | cut -c1-400
  echo "exit=$e"
done
