#!/bin/bash
# usage: tools/mutant.sh <patch-file> <check-id>... : applies the patch to a scratch worktree of /repo (never to /repo itself),
# runs the checks against it (VERIF_REPO) and removes the worktree. Evidence of such runs goes to .cache/alt-evidence.
set -u
patch=$(realpath "$1"); shift
wt=/tmp/mut-$$-$RANDOM
git -C /repo worktree add -q --detach $wt HEAD || exit 3
trap "git -C /repo worktree remove --force $wt" EXIT
(cd $wt && (git apply "$patch" 2>/dev/null || git apply -3 "$patch")) || { echo "patch does not apply"; exit 3; }
cd ${VERIF_DIR:-/verif}
[ -x bin/verif ] || (export GOFLAGS=-mod=mod GOPROXY=off GOSUMDB=off GOTOOLCHAIN=local; go build -o bin/verif ./cmd/verif) || exit 3
for c in "$@"; do
  out=$(VERIF_REPO=$wt timeout 1800 bin/verif check "$c" --tier ${TIER:-quick} 2>&1); e=$?
  echo "$out" | grep -E "^(violation|INFRA|verif:)" | cut -c1-400 | head -${LINES_MAX:-8}
  echo "$out" | grep -E "^(VIOLATION|KNOWN|C[0-9]+ )" | cut -c1-400
  echo "exit=$e"
done
