#!/bin/bash
# usage: tools/mutant.sh <patch-file> <check-id>... : applies the patch to a scratch worktree of /repo (never to /repo itself),
# runs the checks against it (VERIF_REPO) and removes the worktree. Evidence of such runs goes to .cache/alt-evidence.
set -u
patch=$(realpath "$1"); shift
wt=/tmp/mut-$$-$RANDOM
git -C /repo worktree add -q --detach $wt HEAD || exit 3
trap "git -C /repo worktree remove --force $wt" EXIT
if ! (cd $wt && (git apply "$patch" 2>/dev/null || git apply -3 "$patch" >/dev/null 2>&1) && ! git diff --name-only --diff-filter=U | grep -q .); then
  # a seed that only exists on an older tree names it in its meta.json (base_commit)
  base=$(python3 -c "import json,sys,os; m=os.path.join(os.path.dirname(sys.argv[1]),'meta.json'); print(json.load(open(m)).get('base_commit','') if os.path.exists(m) else '')" "$patch")
  [ -n "$base" ] || { echo "patch does not apply"; exit 3; }
  git -C /repo worktree remove --force $wt; git -C /repo worktree add -q --detach $wt $base || exit 3
  (cd $wt && git apply "$patch") || { echo "patch does not apply to its base commit $base"; exit 3; }
  echo "(applied to base commit $base)"
fi
cd ${VERIF_DIR:-/verif}
[ -x bin/verif ] || (export GOFLAGS=-mod=mod GOPROXY=off GOSUMDB=off GOTOOLCHAIN=local; go build -o bin/verif ./cmd/verif) || exit 3
for c in "$@"; do
  out=$(VERIF_REPO=$wt timeout 1800 bin/verif check "$c" --tier ${TIER:-quick} ${ONLY:+--only "$ONLY"} 2>&1); e=$?
  echo "$out" | grep -E "^(violation|INFRA|verif:)" | cut -c1-400 | head -${LINES_MAX:-8}
  echo "$out" | grep -E "^(VIOLATION|KNOWN|C[0-9]+ )" | cut -c1-400
  echo "exit=$e"
done
