package checks

import (
	"fmt"
	"hash/fnv"
	"sort"
	"strings"

	"github.com/relab/gorums"
	"github.com/relab/gorums/cmd/protoc-gen-gorums/dev"

	"verif/mc"
	"verif/mc/fakegrpc"
	"verif/vp"
	"verif/world"
)

// C14: explicit-state BFS over configuration-building operations on the real
// manager, compared in every state with a set-based reference model.

var c14Addrs = []string{"127.0.0.1:9001", "127.0.0.1:9002", "10.0.1.16:5319", "10.0.2.47:8124"} // the last two have colliding FNV-1a IDs

func fnvID(addr string) uint32 {
	h := fnv.New32a()
	h.Write([]byte(addr))
	return h.Sum32()
}

type c14Op struct {
	name string
	// run executes the operation on the live objects; cfgs are the configurations built so far on this path.
	run func(m *dev.Manager, spec *world.QSpec, cfgs []*dev.Configuration) (*dev.Configuration, error)
	// expect computes the reference result from the pre-state.
	expect func(pool map[uint32]string, cfgs [][]uint32) c14Exp
	// enabled reports whether the operation exists in a state with ncfg configurations.
	ncfg  int
	group string
}

type c14Exp struct {
	mustFail bool              // the reference says this must be rejected
	mayFail  bool              // rejection is acceptable (e.g. unknown id)
	set      []uint32          // expected members, sorted
	addrs    map[uint32]string // address each member must carry (only for members created/named by address)
	why      string
}

func sortedSet(ids []uint32) []uint32 {
	m := map[uint32]bool{}
	for _, i := range ids {
		m[i] = true
	}
	out := make([]uint32, 0, len(m))
	for i := range m {
		out = append(out, i)
	}
	sort.Slice(out, func(a, b int) bool { return out[a] < out[b] })
	return out
}

func expectAddrs(pool map[uint32]string, addrs []string, ids []uint32) c14Exp {
	e := c14Exp{addrs: map[uint32]string{}}
	for i, a := range addrs {
		id := ids[i]
		if prev, ok := e.addrs[id]; ok && prev != a {
			e.mustFail, e.why = true, fmt.Sprintf("addresses %s and %s would both map to node %d", prev, a, id)
		}
		if pa, ok := pool[id]; ok && pa != a {
			e.mustFail, e.why = true, fmt.Sprintf("address %s would map to node %d which is registered as %s", a, id, pa)
		}
		e.addrs[id] = a
	}
	e.set = sortedSet(ids)
	return e
}

func c14Ops(tier string) []c14Op {
	var ops []c14Op
	maxList := 2
	if thorough(tier) {
		maxList = 3
	}
	// WithNodeList: every list of length 1..maxList over the address alphabet (duplicates included)
	var lists [][]string
	for l := 1; l <= maxList; l++ {
		idx := make([]int, l)
		for {
			var L []string
			for _, x := range idx {
				L = append(L, c14Addrs[x])
			}
			lists = append(lists, L)
			p := l - 1
			for p >= 0 {
				idx[p]++
				if idx[p] < len(c14Addrs) {
					break
				}
				idx[p] = 0
				p--
			}
			if p < 0 {
				break
			}
		}
	}
	short := func(a string) string {
		return map[string]string{c14Addrs[0]: "a", c14Addrs[1]: "b", c14Addrs[2]: "c", c14Addrs[3]: "c'"}[a]
	}
	for _, L := range lists {
		L := L
		var sn []string
		ids := make([]uint32, len(L))
		for i, a := range L {
			sn = append(sn, short(a))
			ids[i] = fnvID(a)
		}
		nm := "NodeList[" + strings.Join(sn, ",") + "]"
		ops = append(ops, c14Op{name: nm, group: fmt.Sprintf("NodeList/len%d", len(L)),
			run: func(m *dev.Manager, spec *world.QSpec, _ []*dev.Configuration) (*dev.Configuration, error) {
				return m.NewConfiguration(spec, gorums.WithNodeList(append([]string{}, L...)))
			},
			expect: func(pool map[uint32]string, _ [][]uint32) c14Exp { return expectAddrs(pool, L, ids) }})
		// WithNewNodes(x, NodeList) for x = each earlier configuration
		for x := 0; x < 2; x++ {
			x := x
			ops = append(ops, c14Op{name: fmt.Sprintf("cfg%d.WithNewNodes(%s)", x, nm), ncfg: x + 1, group: fmt.Sprintf("NodeList/len%d", len(L)),
				run: func(m *dev.Manager, spec *world.QSpec, cfgs []*dev.Configuration) (*dev.Configuration, error) {
					return m.NewConfiguration(spec, cfgs[x].WithNewNodes(gorums.WithNodeList(append([]string{}, L...))))
				},
				expect: func(pool map[uint32]string, cfgs [][]uint32) c14Exp {
					e := expectAddrs(pool, L, ids)
					e.set = sortedSet(append(append([]uint32{}, cfgs[x]...), ids...))
					return e
				}})
		}
	}
	// WithNodeMap: 1-2 addresses from {a, b, c} to IDs in {1, 2}, both iteration orders
	type ent struct {
		addr string
		id   uint32
	}
	var maps [][]ent
	three := c14Addrs[:3]
	for _, a := range three {
		for id := uint32(1); id <= 2; id++ {
			maps = append(maps, []ent{{a, id}})
		}
	}
	for i := 0; i < len(three); i++ {
		for j := i + 1; j < len(three); j++ {
			for id1 := uint32(1); id1 <= 2; id1++ {
				for id2 := uint32(1); id2 <= 2; id2++ {
					maps = append(maps, []ent{{three[i], id1}, {three[j], id2}})
				}
			}
		}
	}
	for _, M := range maps {
		for rev := 0; rev < len(M); rev++ {
			M, rev := M, rev
			var sn, addrs []string
			var ids []uint32
			for _, e := range M {
				sn = append(sn, fmt.Sprintf("%s:%d", short(e.addr), e.id))
				addrs = append(addrs, e.addr)
				ids = append(ids, e.id)
			}
			nm := fmt.Sprintf("NodeMap{%s}/order%d", strings.Join(sn, ","), rev)
			ops = append(ops, c14Op{name: nm, group: fmt.Sprintf("NodeMap/len%d", len(M)),
				run: func(m *dev.Manager, spec *world.QSpec, _ []*dev.Configuration) (*dev.Configuration, error) {
					mm := map[string]uint32{}
					for _, e := range M {
						mm[e.addr] = e.id
					}
					if rev == 1 {
						mc.MapOrder = func(site string, n int) []int {
							if strings.HasPrefix(site, "config_opts.go") && n == 2 {
								return []int{1, 0}
							}
							return nil
						}
						defer func() { mc.MapOrder = nil }()
					}
					return m.NewConfiguration(spec, gorums.WithNodeMap(mm))
				},
				expect: func(pool map[uint32]string, _ [][]uint32) c14Exp { return expectAddrs(pool, addrs, ids) }})
		}
	}
	// WithNodeIDs: lists of 1-2 ids over {1, 2, fnv(a), unknown 77}
	cand := []uint32{1, 2, fnvID(c14Addrs[0]), 77}
	var idLists [][]uint32
	for _, a := range cand {
		idLists = append(idLists, []uint32{a})
		for _, b := range cand {
			idLists = append(idLists, []uint32{a, b})
		}
	}
	// lists of 3 with a repeated id, adjacent and not ([1 1 2], [1 2 1], [2 1 2], ...): a repeat must not survive
	for _, a := range []uint32{1, 2} {
		for _, b := range []uint32{1, 2} {
			for _, c := range []uint32{1, 2} {
				if a == b && b == c {
					continue
				}
				idLists = append(idLists, []uint32{a, b, c})
			}
		}
	}
	for _, I := range idLists {
		I := I
		ops = append(ops, c14Op{name: fmt.Sprintf("NodeIDs%v", I), group: "NodeIDs",
			run: func(m *dev.Manager, spec *world.QSpec, _ []*dev.Configuration) (*dev.Configuration, error) {
				return m.NewConfiguration(spec, gorums.WithNodeIDs(append([]uint32{}, I...)))
			},
			expect: func(pool map[uint32]string, _ [][]uint32) c14Exp {
				e := c14Exp{set: sortedSet(I)}
				for _, id := range I {
					if _, ok := pool[id]; !ok {
						e.mustFail, e.why = true, fmt.Sprintf("node %d is not registered", id)
					}
				}
				return e
			}})
	}
	// algebra on the configurations built so far
	for x := 0; x < 2; x++ {
		for y := 0; y < 2; y++ {
			x, y := x, y
			need := max(x, y) + 1
			ops = append(ops, c14Op{name: fmt.Sprintf("cfg%d.And(cfg%d)", x, y), ncfg: need, group: "algebra",
				run: func(m *dev.Manager, spec *world.QSpec, cfgs []*dev.Configuration) (*dev.Configuration, error) {
					return m.NewConfiguration(spec, cfgs[x].And(cfgs[y]))
				},
				expect: func(_ map[uint32]string, cfgs [][]uint32) c14Exp {
					return c14Exp{set: sortedSet(append(append([]uint32{}, cfgs[x]...), cfgs[y]...))}
				}})
			ops = append(ops, c14Op{name: fmt.Sprintf("cfg%d.Except(cfg%d)", x, y), ncfg: need, group: "algebra",
				run: func(m *dev.Manager, spec *world.QSpec, cfgs []*dev.Configuration) (*dev.Configuration, error) {
					return m.NewConfiguration(spec, cfgs[x].Except(cfgs[y]))
				},
				expect: func(_ map[uint32]string, cfgs [][]uint32) c14Exp {
					rm := map[uint32]bool{}
					for _, i := range cfgs[y] {
						rm[i] = true
					}
					var keep []uint32
					for _, i := range cfgs[x] {
						if !rm[i] {
							keep = append(keep, i)
						}
					}
					return c14Exp{set: sortedSet(keep)}
				}})
		}
		x := x
		for _, rm := range [][]uint32{{1}, {2}, {1, 1}, {fnvID(c14Addrs[0])}, {77}, {}} {
			rm := rm
			ops = append(ops, c14Op{name: fmt.Sprintf("cfg%d.WithoutNodes%v", x, rm), ncfg: x + 1, group: "algebra",
				run: func(m *dev.Manager, spec *world.QSpec, cfgs []*dev.Configuration) (*dev.Configuration, error) {
					return m.NewConfiguration(spec, cfgs[x].WithoutNodes(rm...))
				},
				expect: func(_ map[uint32]string, cfgs [][]uint32) c14Exp {
					r := map[uint32]bool{}
					for _, i := range rm {
						r[i] = true
					}
					var keep []uint32
					for _, i := range cfgs[x] {
						if !r[i] {
							keep = append(keep, i)
						}
					}
					return c14Exp{set: sortedSet(keep)}
				}})
		}
	}
	return ops
}

type c14State struct {
	path []int // operation indices
}

// c14Exec replays path on a fresh manager and checks every step against the reference; returns the canonical state.
func c14Exec(ops []c14Op, path []int, transitions *int) (canon string, ncfg int) {
	fw := fakegrpc.NewWorld(2)
	for _, a := range c14Addrs {
		fw.AddEndpoint(a, true, nil)
	}
	w := &world.W{}
	spec := world.NewSpec(w)
	m := dev.NewManager(gorums.WithNoConnect())
	var cfgs []*dev.Configuration
	var cfgIDs [][]uint32
	type snap struct {
		ids   []uint32
		nodes []*gorums.RawNode
	}
	var snaps []snap
	pathName := func(k int) string {
		var s []string
		for _, i := range path[:k+1] {
			s = append(s, ops[i].name)
		}
		return strings.Join(s, " ; ")
	}
	for step, oi := range path {
		op := ops[oi]
		last := step == len(path)-1
		pool := map[uint32]string{}
		for _, n := range m.RawManager.Nodes() {
			pool[n.ID()] = n.Address()
		}
		exp := op.expect(pool, cfgIDs)
		cfg, err := op.run(m, spec, cfgs)
		if !last {
			// earlier steps were checked when they were the last step of a shorter path
			if err == nil {
				cfgs = append(cfgs, cfg)
				cfgIDs = append(cfgIDs, append([]uint32{}, cfg.NodeIDs()...))
				snaps = append(snaps, snap{append([]uint32{}, cfg.NodeIDs()...), append([]*gorums.RawNode{}, cfg.RawConfiguration.Nodes()...)})
			}
			continue
		}
		*transitions++
		where := pathName(step)
		kind := op.name
		if i := strings.IndexAny(kind, "[{("); i > 0 {
			kind = kind[:i]
		}
		if strings.HasPrefix(kind, "cfg") {
			kind = kind[strings.Index(kind, ".")+1:]
		}
		switch {
		case err != nil:
			if !exp.mustFail && !exp.mayFail && len(exp.set) > 0 {
				fail("C14/unexpected-error", kind, "%s: rejected with %q, the reference result is %v", where, err, exp.set)
			}
		case exp.mustFail:
			fail("C14/should-fail", kind+": "+firstWords(exp.why), "%s: accepted (nodes %v) although %s", where, cfg.NodeIDs(), exp.why)
		case len(exp.set) == 0:
			fail("C14/empty-accepted", kind, "%s: an empty configuration was accepted", where)
		default:
			ids := cfg.NodeIDs()
			if fmt.Sprint(ids) != fmt.Sprint(exp.set) {
				rule := "C14/membership"
				if fmt.Sprint(sortedSet(ids)) == fmt.Sprint(exp.set) {
					rule = "C14/each-once-sorted"
				}
				fail(rule, kind, "%s: configuration lists %v, the reference set is %v", where, ids, exp.set)
			}
			if cfg.Size() != len(ids) || len(cfg.Nodes()) != len(ids) || len(cfg.RawConfiguration.Nodes()) != len(ids) {
				fail("C14/size-agree", kind, "%s: Size=%d len(Nodes)=%d len(NodeIDs)=%d", where, cfg.Size(), len(cfg.Nodes()), len(ids))
			}
			for i, n := range cfg.Nodes() {
				if i < len(ids) && n.ID() != ids[i] {
					fail("C14/size-agree", kind, "%s: Nodes()[%d] has id %d, NodeIDs()[%d] = %d", where, i, n.ID(), i, ids[i])
				}
			}
			for id, addr := range exp.addrs {
				found := false
				for _, n := range cfg.Nodes() {
					if n.ID() == id && n.Address() == addr {
						found = true
					}
				}
				if !found {
					fail("C14/address-lost", kind, "%s: no node of the result carries the requested address %s (id %d)", where, addr, id)
				}
			}
		}
		if err == nil {
			cfgs = append(cfgs, cfg)
			cfgIDs = append(cfgIDs, append([]uint32{}, cfg.NodeIDs()...))
			snaps = append(snaps, snap{append([]uint32{}, cfg.NodeIDs()...), append([]*gorums.RawNode{}, cfg.RawConfiguration.Nodes()...)})
		}
		// invariants of the whole state
		seen := map[uint32]*gorums.RawNode{}
		mn := m.RawManager.Nodes()
		mids := m.NodeIDs()
		if len(mn) != m.Size() || len(mids) != m.Size() || len(m.Nodes()) != m.Size() {
			fail("C14/pool-agree", kind, "%s: manager Size=%d Nodes=%d NodeIDs=%d", where, m.Size(), len(mn), len(mids))
		}
		for i, n := range mn {
			if seen[n.ID()] != nil {
				fail("C14/pool-duplicate", kind, "%s: the manager holds two node objects with id %d", where, n.ID())
			}
			seen[n.ID()] = n
			if i < len(mids) && mids[i] != n.ID() {
				fail("C14/pool-agree", kind, "%s: manager NodeIDs and Nodes disagree at %d", where, i)
			}
			if l, ok := m.Node(n.ID()); !ok || l != n {
				fail("C14/pool-lookup", kind, "%s: lookup of node %d does not return the pooled object", where, n.ID())
			}
		}
		for ci, c := range cfgs {
			for _, n := range c.RawConfiguration.Nodes() {
				if seen[n.ID()] != n {
					fail("C14/not-pooled", kind, "%s: cfg%d holds a node object for id %d that is not the manager's", where, ci, n.ID())
				}
			}
			// operands unchanged (also guards against aliasing of spare capacity)
			if fmt.Sprint(c.NodeIDs()) != fmt.Sprint(snaps[ci].ids) {
				fail("C14/operand-modified", kind, "%s: cfg%d changed from %v to %v", where, ci, snaps[ci].ids, c.NodeIDs())
			}
			for k, n := range c.RawConfiguration.Nodes() {
				if k < len(snaps[ci].nodes) && snaps[ci].nodes[k] != n {
					fail("C14/operand-modified", kind, "%s: cfg%d element %d was replaced", where, ci, k)
				}
			}
			for cj, d := range cfgs {
				want := fmt.Sprint(sortedSet(snaps[ci].ids)) == fmt.Sprint(sortedSet(snaps[cj].ids))
				if c.Equal(d.RawConfiguration) != want {
					fail("C14/equal", kind, "%s: cfg%d.Equal(cfg%d) = %v, reference sets equal = %v", where, ci, cj, !want, want)
				}
			}
		}
	}
	// canonical state: pool + multiset of configurations (order of creation matters for operation naming, so keep the list)
	var ps []string
	for _, n := range m.RawManager.Nodes() {
		ps = append(ps, fmt.Sprintf("%d@%s", n.ID(), n.Address()))
	}
	sort.Strings(ps)
	var cs []string
	for _, ids := range cfgIDs {
		cs = append(cs, fmt.Sprint(ids))
	}
	return strings.Join(ps, ",") + " | " + strings.Join(cs, ";"), len(cfgs)
}

func firstWords(s string) string {
	f := strings.Fields(s)
	var out []string
	for _, w := range f {
		if strings.ContainsAny(w, "0123456789.") {
			continue
		}
		out = append(out, w)
	}
	return strings.Join(out, " ")
}

func c14Seq(tier, group string, depth int) func(r *vp.InstResult) {
	return func(r *vp.InstResult) {
		ops := c14Ops(tier)
		transitions := 0
		seen := map[string]bool{}
		seqRun(r, func() {
			type item struct {
				path []int
				ncfg int
			}
			frontier := []item{{nil, 0}}
			seen["init"] = true
			for len(frontier) > 0 {
				it := frontier[0]
				frontier = frontier[1:]
				for oi, op := range ops {
					if expired() {
						r.Complete = false
						return
					}
					if op.ncfg > it.ncfg {
						continue
					}
					if len(it.path) == 0 && op.group != group {
						continue
					}
					np := append(append([]int{}, it.path...), oi)
					canon, ncfg := c14Exec(ops, np, &transitions)
					if !seen[canon] {
						seen[canon] = true
						if len(np) < depth && ncfg <= 2 {
							frontier = append(frontier, item{np, ncfg})
						}
					}
				}
			}
		})
		r.Execs = transitions
		r.States = len(seen)
		r.Steps = transitions
		for k := range seen {
			if len(r.Outcomes) < 400 {
				r.Outcomes[k] = 1
			}
		}
		r.Sample = map[string]any{"path": "NodeList[a,c] ; NodeMap{b:1}/order0 ; cfg0.And(cfg1)", "note": "a,b are distinct addresses, c and c' have colliding generated ids"}
	}
}

// c14ConcurrentScenario: two goroutines create configurations on one manager at the same time, each
// introducing a new address under the SAME node ID. Whatever the interleaving, the manager keeps one node
// object per ID: at most one creation may succeed, and the pool must not list the ID twice.
func c14ConcurrentScenario(sameAddr bool) func() {
	return func() {
		w := world.New(world.Opts{N: 1})
		if w.Cfg == nil {
			return
		}
		a, b := "127.0.0.1:9101", "127.0.0.1:9102"
		if sameAddr {
			b = a
		}
		var errA, errB error
		var cfgA, cfgB *dev.Configuration
		done := 0
		mc.GoNamed("creator-a", func() {
			cfgA, errA = w.Mgr.NewConfiguration(w.Spec, gorums.WithNodeMap(map[string]uint32{a: 9}))
			done++
		})
		mc.GoNamed("creator-b", func() {
			cfgB, errB = w.Mgr.NewConfiguration(w.Spec, gorums.WithNodeMap(map[string]uint32{b: 9}))
			done++
		})
		mc.Quiesce()
		name := fmt.Sprintf("cfg-concurrent/two-creations-of-node-9/same-address=%v", sameAddr)
		if done != 2 {
			fail("C14/creation-blocked", "concurrent", "%s: %d of 2 creations returned", name, done)
			return
		}
		nine := 0
		for _, id := range w.Mgr.NodeIDs() {
			if id == 9 {
				nine++
			}
		}
		if nine > 1 {
			fail("C14/pool-duplicate-id", "concurrent", "%s: the manager's pool lists node ID 9 %d times (creation errors: %v / %v)", name, nine, errA, errB)
		}
		if !sameAddr && errA == nil && errB == nil {
			fail("C14/should-fail", "concurrent: two addresses for one node ID", "%s: both creations succeeded: addresses %s and %s are both mapped to node 9 (configurations %v / %v)", name, a, b, cfgA.NodeIDs(), cfgB.NodeIDs())
		}
		if n, ok := w.Mgr.Node(9); ok && errA == nil && errB != nil && n.Address() != a {
			fail("C14/address", "concurrent", "%s: creation for %s succeeded but node 9 carries %s", name, a, n.Address())
		}
		mc.Outcome("errA=%v errB=%v", errA != nil, errB != nil)
		mc.NoBranch(true)
		w.Mgr.Close()
	}
}

func init() {
	register(&Check{ID: "C14",
		Rule: "explicit-state BFS over configuration-building operations executed on the real manager (successor = replay of the shortest path on a fresh manager + one operation), depth 4 (quick) / 5 (thorough, within the time budget); alphabet: WithNodeList over every address list of length 1..2 (3 thorough) from {a, b, c, c'} (c, c' have colliding generated IDs; duplicates included), WithNodeMap over every 1-2 entry map {a,b,c}->{1,2} in both iteration orders, WithNodeIDs over lists of 1-2 ids from {1, 2, id(a), unknown} and lists of 3 over {1, 2} with adjacent and non-adjacent repeats, And / Except / WithoutNodes / WithNewNodes over the configurations built so far; states deduplicated by (pool, list of configurations); reference model = Go sets; states = distinct canonical states, transitions = operations executed and compared; plus two goroutines creating, at the same time, configurations that introduce a new address under the same node ID (all schedules within 2 deviations): one node object per ID, never two addresses for one ID",
		Gen: func(tier string) []Instance {
			depth := 4
			if thorough(tier) {
				depth = 5 // cut by the time budget if necessary (reported as exhaustive:false)
			}
			var out []Instance
			groups := []string{"NodeList/len1", "NodeList/len2", "NodeMap/len1", "NodeMap/len2", "NodeIDs"}
			if thorough(tier) {
				groups = append(groups, "NodeList/len3")
			}
			for _, g := range groups {
				out = append(out, Instance{Name: fmt.Sprintf("cfg-bfs/first=%s/depth=%d", g, depth), Seq: c14Seq(tier, g, depth)})
			}
			for _, same := range []bool{false, true} {
				out = append(out, Instance{Name: fmt.Sprintf("cfg-concurrent/two-creations-of-node-9/same-address=%v", same), Bound: 2, Root: c14ConcurrentScenario(same)})
			}
			return out
		},
		Assumptions: []string{"managers are created with WithNoConnect (configuration algebra does not depend on connections); map iteration order is controlled at the range site in config_opts.go"},
	})
}
