package checks

import (
	"context"
	"errors"
	"fmt"
	"regexp"
	"strings"

	"github.com/relab/gorums"
	"google.golang.org/grpc/codes"
	"google.golang.org/grpc/status"

	"verif/mc"
	"verif/world"
)

// C07: minority failures are tolerated and every failing node is reported
// exactly once. Fault enumeration: failing subsets x failure kinds x fault
// position (before the call, or as a free-running thread that the explorer
// places at every instant within the deviation bound).

type faultParams struct {
	kind    string // call kind
	n       int
	failing []int
	fault   string // down, crash, reset, restart, err-Unknown, err-NotFound, err-Internal, err-Unavailable, err-Canceled
	extra   int    // threshold = healthy + extra
	late    bool   // healthy nodes answer only after the fault has been processed
	pre     bool   // the fault strikes before the call is issued
	prior   int    // earlier stream resets of the failing nodes, each healed before the next event (history)
	timers  bool   // a second adversary thread lets the armed back-off timers expire at any instant
	second  bool   // a second client thread issues an RPC to each failing node while the fault strikes
	close   bool   // queued faults: the manager is closed while the request still waits behind the busy sender
}

func (p faultParams) name() string {
	h := ""
	if p.prior > 0 {
		h = fmt.Sprintf("/after-%d-healed-resets", p.prior)
	}
	if p.timers {
		h += "/timer-thread"
	}
	if p.second {
		h += "/concurrent-rpc-to-failing-node"
	}
	if p.close {
		h += "/then-close"
	}
	return fmt.Sprintf("fault/%s/n=%d/failing=%v/%s/thr=healthy+%d/late=%v/pre=%v%s", p.kind, p.n, p.failing, p.fault, p.extra, p.late, p.pre, h)
}

var errCodes = map[string]codes.Code{"err-NotFound": codes.NotFound, "err-Internal": codes.Internal, "err-Unavailable": codes.Unavailable, "err-Canceled": codes.Canceled}

func faultErr(fault string, node int) error {
	if fault == "err-Unknown" {
		return fmt.Errorf("plain%d", node)
	}
	return status.Error(errCodes[fault], fmt.Sprintf("boom%d", node))
}

var nodeErrRe = regexp.MustCompile(`(?m)^\tnode (\d+): (.*)$`)

// checkNodeErrors verifies the per-node part of a QuorumCallError text.
func checkNodeErrors(name, key string, err error, wantFailing []int, handlerErr func(node int) string, mayBeAbsent map[int]bool) {
	text := err.Error()
	seen := map[int]int{}
	for _, m := range nodeErrRe.FindAllStringSubmatch(text, -1) {
		var id int
		fmt.Sscan(m[1], &id)
		seen[id]++
		cause := m[2]
		if !contains(wantFailing, id) {
			fail("C07/healthy-node-reported", key, "%s: node %d did not fail but is reported: %q", name, id, cause)
			continue
		}
		if handlerErr != nil {
			if want := handlerErr(id); cause != want {
				fail("C07/handler-status", key, "%s: node %d reported as %q, the handler returned %q", name, id, cause, want)
			}
		} else if !(strings.Contains(cause, "Unavailable") || strings.Contains(cause, "EOF")) {
			fail("C07/connection-error-kind", key, "%s: connection failure of node %d reported as %q (not an unavailable-type error)", name, id, cause)
		}
	}
	for _, id := range wantFailing {
		if seen[id] == 0 && mayBeAbsent[id] {
			continue
		}
		if seen[id] > 1 {
			fail("C05/at-most-once", key, "%s: node %d delivered %d errors to one call: %q", name, id, seen[id], text)
		}
		if seen[id] != 1 {
			fail("C07/named-once", key, "%s: failing node %d is named %d times in %q", name, id, seen[id], text)
		}
	}
}

func faultScenario(p0 faultParams) func() {
	return func() {
		p := p0 // the oracle below adjusts its copy (then-close); every execution starts from the instance's parameters
		p.failing = append([]int{}, p0.failing...)
		o := world.Opts{N: p.n}
		slowStream := strings.HasSuffix(p.fault, "-queued+slow-stream") // additionally a stream call with a blocked quorum function is pending on each failing node
		queued := strings.HasSuffix(p.fault, "-queued") || slowStream   // the request is still queued behind a busy sender when the fault strikes
		nStream := 0
		if slowStream {
			nStream = len(p.failing)
		}
		if queued {
			o.Window = 1
		}
		if p.fault == "down" {
			o.Down = make([]bool, p.n)
			for _, f := range p.failing {
				o.Down[f-1] = true
			}
		}
		w := world.New(o)
		if w.Cfg == nil {
			return
		}
		handlerFault := strings.HasPrefix(p.fault, "err-")
		blockerTok := map[int]bool{}
		w.Handle = func(h *world.HCtx) world.Reply {
			if h.Tok <= nStream {
				// the pending stream call: two replies, streamed at once
				h.Release()
				h.Send(0, 0)
				h.Send(1, 0)
				return world.Reply{}
			}
			if blockerTok[h.Tok] {
				world.Block() // the earlier one-way messages
			}
			if contains(p.failing, h.Node) {
				if handlerFault {
					return world.Reply{Err: faultErr(p.fault, h.Node)}
				}
				world.Block() // a node with a connection fault never answers: it can only contribute an error
			}
			if p.late {
				w.Wait("healthy")
			}
			return world.Reply{Val: 1}
		}
		healthy := p.n - len(p.failing)
		thr := healthy + p.extra
		for i := 0; i < p.prior; i++ {
			// history: the stream of each failing node breaks while the client is idle and is re-created
			for _, f := range p.failing {
				w.FW.Reset(world.Addr(f))
			}
			mc.Quiesce()
			for j := 0; j < 4 && mc.FireTimers(nil) > 0; j++ {
				mc.Quiesce()
			}
		}
		if slowStream {
			// on each failing node a correctable stream call whose quorum function blocks at the first reply:
			// the second reply fills its reply channel, so the node's receiver can be held up while it
			// reports the broken stream to the pending calls
			for _, f := range p.failing {
				sc := w.NewCall("CorrectableStream")
				sc.Cfg = w.SubConfig(f)
				sc.Ctx = context.Background()
				first := true
				sc.Verdict = func(inv *world.QFInv) {
					if first {
						first = false
						w.Wait("slow-qf")
					}
					inv.Level = len(sc.QF) + 1
				}
				w.Invoke(sc)
				mc.Quiesce()
			}
		}
		if queued {
			// two earlier one-way messages per failing node: one occupies the (never releasing) handler,
			// one fills the window; the sender of that node is then stuck writing a third
			for _, f := range p.failing {
				for i := 0; i < 5; i++ {
					b := w.NewCall("Unicast")
					b.Node, b.NoSendWaiting = f, true
					b.Ctx = context.Background()
					blockerTok[b.Tok] = true
					w.Start(b)
					mc.Quiesce()
					if !b.Returned {
						break // the sender is busy: this message (and the call's request) wait for the hand-off
					}
				}
			}
		}
		c := w.NewCall(p.kind)
		c.Verdict = func(inv *world.QFInv) {
			inv.Level = len(inv.Keys)
			inv.Quorum = len(inv.Keys) >= thr
		}
		strike := func() {
			for _, f := range p.failing {
				switch p.fault {
				case "crash", "crash-queued", "crash-queued+slow-stream":
					w.FW.Crash(world.Addr(f))
				case "reset", "reset-queued":
					w.FW.Reset(world.Addr(f))
				case "restart":
					w.FW.Crash(world.Addr(f))
					w.FW.Restart(world.Addr(f))
				}
			}
		}
		active := p.fault == "crash" || p.fault == "reset" || p.fault == "restart" || queued
		if queued {
			// strike only once the call's request waits behind the busy sender
			w.Start(c)
			mc.Quiesce()
			strike()
			if p.close {
				// the receiver has failed the waiting call for the broken stream; now the node is closed while
				// the call is still at the hand-off: it must not hear from this node a second time
				mc.Quiesce()
				w.Mgr.Close()
			}
		}
		if slowStream {
			// the back-off of the sender's retry passes while the stream call's quorum function still runs
			mc.Quiesce()
			mc.FireTimers(nil)
			mc.Quiesce()
			w.Open("slow-qf")
		}
		if active && p.pre {
			strike()
			mc.Quiesce()
		}
		if !queued {
			w.Start(c)
		}
		if active && !p.pre && !queued {
			mc.GoLow("fault", strike)
		}
		if p.timers {
			mc.GoLow("timers", func() { mc.FireTimers(nil) })
		}
		if p.second {
			// other traffic to the failing node at the time of the fault: its sender is busy with a
			// request (and may re-create the stream) while the receiver deals with the failure
			for _, f := range p.failing {
				x := w.NewCall("GRPCCall")
				x.Node = f
				x.Ctx = context.Background()
				w.Start(x)
			}
		}
		mc.Quiesce()
		if p.late {
			w.Open("healthy")
			mc.Quiesce()
		}
		// C07 asks for eventual completion: armed back-off timers may fire
		for i := 0; i < 4; i++ {
			if mc.FireTimers(nil) == 0 {
				break
			}
			mc.Quiesce()
		}
		name, key := p.name(), classOf(p.kind)+"/"+p.fault
		if p.close && p.late {
			// the manager was closed before the healthy nodes answered: now every node has failed for this call
			// (each exactly once), and there is no quorum to expect
			p.failing = nil
			for id := 1; id <= p.n; id++ {
				p.failing = append(p.failing, id)
			}
			healthy, thr = 0, 1
			p.extra = 1
		}
		// a failing node that received the request on a stream created after the fault is legitimately outstanding
		outstanding := map[int]bool{}
		if active && !strings.HasPrefix(p.fault, "crash") {
			for _, f := range p.failing {
				for _, e := range w.EventsOf("enter", f) {
					st := w.FW.Streams[e.Conn]
					if e.Tok == c.Tok && !st.Broken() {
						outstanding[f] = true
					}
				}
				// ... or was written to such a stream and waits there behind an unreleased handler
				for _, st := range w.FW.Streams {
					if c2s, _ := st.Pending(); st.Addr == world.Addr(f) && !st.Broken() && c2s > 0 {
						outstanding[f] = true
					}
				}
			}
		}
		done, resp, rerr := false, any(nil), error(nil)
		switch {
		case world.IsAsync(p.kind):
			if c.Returned && c.Fut.Done() {
				done = true
				resp, rerr = world.AsyncGet(c.Fut)
			}
		case world.IsCorrectable(p.kind):
			if c.Returned && closedNow(c.Corr.Done()) {
				done = true
				resp, _, rerr = world.CorrRawGet(c.Corr)
			}
		default:
			done, resp, rerr = c.Returned, c.Resp, c.Err
		}
		_ = resp
		// the quorum function never sees a failed node, and only genuine replies
		checkGenuine(w, c, name)
		for _, inv := range c.QF {
			for _, k := range inv.Keys {
				if contains(p.failing, int(k)) {
					fail("C07/reply-from-failed-node", key, "%s: the quorum function was shown a reply of failing node %d", name, k)
				}
			}
		}
		var hErr func(int) string
		if handlerFault {
			hErr = func(node int) string { return status.Convert(faultErr(p.fault, node)).Err().Error() }
		}
		switch {
		case p.extra == 0 && healthy > 0:
			// the healthy nodes' replies satisfy the quorum function
			if !done {
				fail("C07/minority-not-tolerated", key, "%s: the call has not completed although all %d healthy nodes replied and the threshold is %d", name, healthy, thr)
			} else if rerr != nil {
				fail("C07/minority-not-tolerated", key, "%s: the call failed although all %d healthy nodes replied and the threshold is %d: %v", name, healthy, thr, rerr)
			}
			mc.Outcome("success=%v", done && rerr == nil)
		default:
			// quorum impossible: Incomplete once every failing node has been accounted for
			if !done {
				if len(outstanding) == 0 {
					fail("C07/left-waiting", key+" lock-waiters="+world.LockWaiters(), "%s: the call is still waiting after the connection of node(s) %v failed and the back-off timers fired (routers: %s)", name, p.failing, routerCounts(w))
				}
				mc.Outcome("outstanding=%v", outstanding)
				break
			}
			if !errors.Is(rerr, gorums.Incomplete) {
				fail("C07/outcome", key, "%s: expected Incomplete, got %v", name, rerr)
				break
			}
			checkNodeErrors(name, key, rerr, p.failing, hErr, outstanding)
			if m := countsRe.FindStringSubmatch(rerr.Error()); m != nil {
				if m[1] != fmt.Sprint(len(p.failing)) || m[2] != fmt.Sprint(healthy) {
					fail("C07/counts", key, "%s: Incomplete reports errors=%s replies=%s with %d failing and %d healthy nodes", name, m[1], m[2], len(p.failing), healthy)
					fail("C02/incomplete-counts", key, "%s: Incomplete reports errors=%s replies=%s although %d node(s) failed and %d replied: the call did not end by exhaustion of the targeted nodes", name, m[1], m[2], len(p.failing), healthy)
				}
			}
			mc.Outcome("incomplete")
		}
		// C18: once every targeted node answered or its connection failed, no router remains
		if done && len(outstanding) == 0 && (p.extra > 0 || healthy == 0 || handlerFault) {
			for id := 1; id <= p.n; id++ {
				if r := w.Routers(id); r != 0 {
					fail("C18/router-left", key, "%s: node %d keeps %d response router(s) after every node answered or failed", name, id, r)
				}
			}
		}
	}
}

// oldStreamScenario: call C waits for a reply of node 1 (its handler never answers). The node's receiver is
// outside its RecvMsg - parked in the delivery of a reply to a stream call whose quorum function is blocked -
// when the stream is reset. Two one-way messages follow (the first write fails, the second makes the sender
// re-create the stream). Then the quorum function continues. Whoever replaces the stream, C must be told
// that its connection broke.
func oldStreamScenario(kind string, oneWays int) func() {
	return func() {
		w := world.New(world.Opts{N: 1, Window: 4})
		if w.Cfg == nil {
			return
		}
		tokC, tokA := 0, 0
		w.Handle = func(h *world.HCtx) world.Reply {
			switch h.Tok {
			case tokC:
				h.Release()
				world.Block()
			case tokA:
				h.Release()
				for i := 0; i < 3; i++ {
					if h.Send(i, 0) != nil {
						break
					}
				}
			}
			return world.Reply{}
		}
		c := w.NewCall(kind)
		if kind == "GRPCCall" {
			c.Node = 1
		}
		c.Ctx = context.Background()
		c.Verdict = func(inv *world.QFInv) { inv.Quorum = true }
		tokC = c.Tok
		w.Start(c)
		mc.Quiesce()
		a := w.NewCall("CorrectableStream")
		tokA = a.Tok
		first := true
		a.Verdict = func(inv *world.QFInv) {
			if first {
				first = false
				w.Wait("qf")
			}
			inv.Level = len(a.QF) + 1
		}
		w.Start(a)
		mc.Quiesce() // the receiver is parked on the full reply channel, outside RecvMsg
		w.FW.Reset(world.Addr(1))
		mc.Quiesce()
		for i := 0; i < oneWays; i++ {
			x := w.NewCall("Unicast")
			x.Node, x.NoSendWaiting = 1, true
			x.Ctx = context.Background()
			w.Start(x)
			mc.Quiesce()
		}
		w.Open("qf")
		mc.Quiesce()
		for i := 0; i < 4 && mc.FireTimers(nil) > 0; i++ {
			mc.Quiesce()
		}
		a.Cancel(context.Canceled)
		mc.Quiesce()
		name := fmt.Sprintf("fault/%s/reset-while-receiver-delivers/one-ways=%d", kind, oneWays)
		done := c.Returned
		if world.IsAsync(kind) {
			done = c.Returned && c.Fut.Done()
		}
		if !done {
			fail("C07/left-waiting", classOf(kind)+"/reset-while-receiver-delivers lock-waiters="+world.LockWaiters(), "%s: the call is still waiting for node 1 although the stream its request was written to has been reset and replaced (routers: %s)", name, routerCounts(w))
			mc.Outcome("left-waiting")
			return
		}
		mc.Outcome("completed")
	}
}

func routerCounts(w *world.W) string {
	var s []string
	for id := 1; id <= w.O.N; id++ {
		s = append(s, fmt.Sprintf("n%d=%d", id, w.Routers(id)))
	}
	return strings.Join(s, " ")
}

// faultHistoryScenario: minority failures must be tolerated whatever happened before the call.
//   late-start:         node x was down when the manager was created and has been listening since; then node y
//                       crashes; a call that needs two of the three nodes must succeed with the other two.
//   error-then-success: in a first call node x's handler fails (tolerated); in the second call every handler
//                       succeeds but node y has crashed: the second call must succeed with the other two,
//                       among them node x's reply.
func faultHistoryScenario(kind, mode string, x, y int) func() {
	return func() {
		o := world.Opts{N: 3, Window: 4}
		if mode == "late-start" {
			o.Down = make([]bool, 3)
			o.Down[x-1] = true
		}
		w := world.New(o)
		if w.Cfg == nil {
			return
		}
		failTok := -1
		w.Handle = func(h *world.HCtx) world.Reply {
			if h.Tok == failTok && h.Node == x {
				return world.Reply{Err: handlerError(x)}
			}
			return world.Reply{}
		}
		settle := func() {
			mc.Quiesce()
			for i := 0; i < 4 && mc.FireTimers(nil) > 0; i++ {
				mc.Quiesce()
			}
		}
		mk := func() *world.Call {
			c := w.NewCall(kind)
			c.Verdict = func(inv *world.QFInv) { inv.Level = len(inv.Keys); inv.Quorum = len(inv.Keys) >= 2 }
			return c
		}
		name := fmt.Sprintf("fault-history/%s/%s/x=%d/y=%d", kind, mode, x, y)
		key := classOf(kind) + "/" + mode
		switch mode {
		case "late-start":
			mc.Quiesce()
			w.FW.Restart(world.Addr(x)) // the node starts listening
			settle()
		case "error-then-success":
			a := mk()
			failTok = a.Tok
			w.Start(a)
			settle()
			if done, err := callDone(a); !done || err != nil {
				fail("C07/minority-not-tolerated", key, "%s: first call: node %d's handler failed, the other two replied, but the call ended with done=%v err=%v", name, x, done, err)
			}
		}
		w.FW.Crash(world.Addr(y))
		settle()
		b := mk()
		w.Start(b)
		settle()
		done, err := callDone(b)
		switch {
		case !done:
			fail("C07/left-waiting", key, "%s: node %d is down, nodes %v are healthy and answer, but the call has not completed", name, y, healthyOf(3, y))
		case err != nil:
			fail("C07/minority-not-tolerated", key, "%s: node %d is down, the other two nodes are healthy (their handlers succeed) and two replies suffice, but the call failed: %v", name, y, err)
		}
		mc.Outcome("done=%v err=%v", done, err != nil)
	}
}

func healthyOf(n, failing int) []int {
	var out []int
	for i := 1; i <= n; i++ {
		if i != failing {
			out = append(out, i)
		}
	}
	return out
}

func faultInstances(tier string) []Instance {
	var out []Instance
	for _, kind := range []string{"QuorumCall", "QuorumCallAsync", "Correctable"} {
		for _, mode := range []string{"late-start", "error-then-success"} {
			for x := 1; x <= 3; x++ {
				for y := 1; y <= 3; y++ {
					if x == y || (kind != "QuorumCall" && (x+y)%2 == 0 && !thorough(tier)) {
						continue
					}
					out = append(out, Instance{Name: fmt.Sprintf("fault-history/%s/%s/x=%d/y=%d", kind, mode, x, y), Bound: 1, Root: faultHistoryScenario(kind, mode, x, y)})
				}
			}
		}
	}
	for _, kind := range []string{"GRPCCall", "QuorumCall", "QuorumCallAsync"} {
		for _, ow := range []int{1, 2} {
			out = append(out, Instance{Name: fmt.Sprintf("fault/%s/reset-while-receiver-delivers/one-ways=%d", kind, ow), Bound: 2, Root: oldStreamScenario(kind, ow)})
		}
	}
	faults := []string{"down", "crash", "reset", "restart", "crash-queued", "reset-queued", "crash-queued+slow-stream", "err-Unknown", "err-NotFound", "err-Internal", "err-Unavailable", "err-Canceled"}
	kinds := []string{"QuorumCall", "QuorumCallAsync"}
	if thorough(tier) {
		kinds = append(kinds, "Correctable", "QuorumCallCombo")
	}
	type fs struct {
		n       int
		failing []int
	}
	sets := []fs{{2, []int{2}}, {2, []int{1, 2}}, {3, []int{3}}, {3, []int{2, 3}}, {3, []int{1, 2, 3}}}
	for _, kind := range kinds {
		for _, s := range sets {
			for _, f := range faults {
				for _, extra := range []int{0, 1} {
					if extra == 0 && s.n == len(s.failing) {
						continue
					}
					for _, late := range []bool{false, true} {
						for _, pre := range []bool{false, true} {
							active := f == "crash" || f == "reset" || f == "restart"
							if strings.Contains(f, "-queued") && (pre || len(s.failing) == s.n) {
								continue
							}
							if !active && pre {
								continue
							}
							if late && s.n == len(s.failing) {
								continue
							}
							bound := 1
							if thorough(tier) {
								bound = 2
							}
							if s.n == 3 && !thorough(tier) && (!active || pre) {
								bound = 0
							}
							if s.n == 2 && len(s.failing) == 1 && active && !pre && !late && kind == "QuorumCall" && extra == 1 {
								bound = 2 // the fault thread against a call that has to be completed with an error
							}
							p := faultParams{kind: kind, n: s.n, failing: s.failing, fault: f, extra: extra, late: late, pre: pre}
							out = append(out, Instance{Name: p.name(), Bound: bound, Root: faultScenario(p)})
							if strings.HasSuffix(f, "-queued") && len(s.failing) == 1 && ((s.n == 2 && extra == 1 && !late) || (s.n == 3 && extra == 0 && late)) {
								pc := p
								pc.close = true
								out = append(out, Instance{Name: pc.name(), Bound: 1, Root: faultScenario(pc)})
							}
							if active && !pre && !late && s.n == 2 && len(s.failing) == 1 && extra == 1 && (f == "reset" || f == "restart") {
								ps := p
								ps.second = true
								out = append(out, Instance{Name: ps.name(), Bound: 2, Root: faultScenario(ps)})
							}
							if bound == 2 && !thorough(tier) {
								// the same with the back-off timers expiring at an instant of the explorer's choosing
								pt := p
								pt.timers = true
								out = append(out, Instance{Name: pt.name(), Bound: 2, Root: faultScenario(pt)})
							}
							if s.n == 2 && len(s.failing) == 1 && !late && (f == "down" || active || f == "err-Unknown") {
								// the same with a history of two healed stream resets on the failing node
								p.prior = 2
								if f == "down" {
									continue // a node that is down at creation has no stream to reset
								}
								out = append(out, Instance{Name: p.name(), Bound: min(bound, 1), Root: faultScenario(p)})
							}
						}
					}
				}
			}
		}
	}
	return out
}

func init() {
	register(&Check{ID: "C07",
		Rule:        "fault enumeration: n in {2,3} x failing subset (minority, majority, all) x failure kind {down at creation, crash, stream reset, crash+restart, crash / reset while the request is still queued behind a sender blocked on a full window (also with a stream call whose quorum function is blocked pending on the failing node), handler error with code Unknown/NotFound/Internal/Unavailable/Canceled} x threshold {healthy, healthy+1} x healthy nodes answering before / after the fault x fault position {before the call, adversary fault thread placed by the explorer at every instant within the deviation bound} x history {none, two earlier stream resets of the failing node healed while idle} x other traffic {none, a concurrent RPC to the failing node}; plus a family in which the stream is reset while the receiver is outside RecvMsg (parked in a delivery) and one-way messages make the sender notice and re-create the stream first x {quorum call, async (+correctable, combo in thorough)}; armed back-off timers are fired to a horizon of 4 rounds before the progress oracle; oracle: success iff the healthy replies satisfy the quorum function, Incomplete names every failing node exactly once with the handler's status or an unavailable-type error, the quorum function never sees a failed node, no call is left waiting for a node whose connection broke (unless that node received the request on a stream created after the fault); an outcome is (instance, result class); plus histories before the call (n=3, two replies suffice): a node that was down at manager creation has started listening, or an earlier call in which one node's handler failed - then another node crashes and the call must succeed with the remaining two",
		Gen:         faultInstances,
		Assumptions: []string{"a node with a connection fault never answers (its handler blocks), so it can only contribute an error", "crashes drop in-flight frames (fakegrpc); eventual completion is decided after firing the armed library timers 4 rounds"},
	})
}
