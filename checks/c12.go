package checks

import (
	"context"
	"fmt"
	"strings"

	"github.com/relab/gorums"
	"github.com/relab/gorums/cmd/protoc-gen-gorums/dev"

	"verif/mc"
	"verif/world"
)

// C12: Close stops everything and strands no caller. Close is a free-running
// thread (optionally two) that the explorer places at every instant relative to
// an in-flight call; afterwards a further call is issued on the closed manager.

type closeParams struct {
	kind    string
	nsw     bool
	buf     uint
	state   string // connected, down, backoff
	blocks  bool   // the handler never answers (the call can only end through Close)
	closers int
	post    string // call issued after Close returned
	second  string // optional second in-flight call kind
	mixed   bool   // two in-flight calls: the first one is answered, the second one's handler never answers
}

func (p closeParams) name() string {
	k := p.kind
	if p.nsw {
		k += "+nsw"
	}
	if p.second != "" {
		k += "," + p.second
	}
	if p.mixed {
		k += "/first-answered"
	}
	return fmt.Sprintf("close/%s/buf=%d/%s/blocks=%v/closers=%d/post=%s", k, p.buf, p.state, p.blocks, p.closers, p.post)
}

func callDone(c *world.Call) (bool, error) {
	switch {
	case !c.Returned:
		return false, nil
	case world.IsAsync(c.Kind):
		if !c.Fut.Done() {
			return false, nil
		}
		_, err := world.AsyncGet(c.Fut)
		return true, err
	case world.IsCorrectable(c.Kind):
		if !closedNow(c.Corr.Done()) {
			return false, nil
		}
		_, _, err := world.CorrRawGet(c.Corr)
		return true, err
	}
	return true, c.Err
}

// clientLibThreads lists live threads started by the client side of the library.
func clientLibThreads() []string {
	var out []string
	for _, t := range world.LibThreads() {
		if strings.Contains(t, "orderingServer") || strings.HasPrefix(t, "dev.Register") {
			continue
		}
		out = append(out, t)
	}
	return out
}

func closeScenario(p closeParams) func() {
	return func() {
		o := world.Opts{N: 1, SendBuffer: p.buf, Window: 1}
		if p.state == "down" || p.state == "blocking-dial-late-up" {
			o.Down = []bool{true}
		}
		if p.state == "blocking-dial-late-up" {
			// grpc.WithBlock: the dial at creation times out and leaves the node without a connection
			o.BlockingDial = true
		}
		w := world.New(o)
		if w.Cfg == nil {
			return
		}
		w.Handle = func(h *world.HCtx) world.Reply {
			if p.mixed && h.Tok == 1 {
				w.Wait("first") // answered when the script says so: at the same time as Close starts
			} else if p.blocks {
				world.Block()
			}
			if h.Send != nil {
				h.Send(0, 0)
			}
			return world.Reply{}
		}
		if p.state == "blocking-dial-late-up" {
			w.FW.Restart(world.Addr(1)) // the server starts listening after the manager was created
			mc.Quiesce()
		}
		if p.state == "backoff" || p.state == "healing" {
			w.FW.Crash(world.Addr(1))
			mc.Quiesce() // the receiver is now in its reconnect loop with a back-off timer armed
		}
		mk := func(kind string, nsw bool) *world.Call {
			c := w.NewCall(kind)
			c.Ctx = context.Background() // never ends: only Close can complete the call
			c.NoSendWaiting = nsw
			if kind == "GRPCCall" || strings.HasPrefix(kind, "Unicast") {
				c.Node = 1
			}
			c.Verdict = func(inv *world.QFInv) { inv.Level = len(inv.Keys); inv.Quorum = !p.blocks || (p.mixed && c.Tok == 1) }
			return c
		}
		inflight := []*world.Call{mk(p.kind, p.nsw)}
		if p.second != "" {
			inflight = append(inflight, mk(p.second, false))
		}
		for _, c := range inflight {
			w.Start(c)
		}
		if p.state == "healing" {
			// the node listens again and the back-off timers expire: receiver and sender re-create the stream
			// and the request goes out - while Close strikes (the closers start now)
			mc.Quiesce()
			w.FW.Restart(world.Addr(1))
			mc.FireTimers(nil)
		}
		if p.mixed {
			mc.Quiesce() // both requests are with the server: the first handler waits for the gate, the second request behind it
			w.Open("first")
		}
		closed := 0
		for i := 0; i < p.closers; i++ {
			mc.GoLow(fmt.Sprintf("closer%d", i+1), func() {
				w.Mgr.Close()
				closed++
			})
		}
		settle := func() {
			mc.Quiesce()
			for i := 0; i < 4; i++ {
				if mc.FireTimers(nil) == 0 {
					break
				}
				mc.Quiesce()
			}
		}
		settle()
		name := p.name()
		key := fmt.Sprintf("%s/buf=%d/%s", classOf(p.kind), p.buf, p.state)
		if closed != p.closers {
			fail("C12/close-blocked", key, "%s: %d of %d Close calls returned", name, closed, p.closers)
		}
		for _, c := range inflight {
			done, err := callDone(c)
			switch {
			case !done:
				fail("C12/stranded-in-flight", key, "%s: call t%d (%s) that was in progress when Close ran has not returned (client library threads: %v)", name, c.Tok, c.Kind, clientLibThreads())
			case p.blocks && !(p.mixed && c.Tok == 1) && !world.IsOneWay(c.Kind) && err == nil:
				fail("C12/no-error", key, "%s: call t%d could not finish (its handler never answers) but reports no error after Close", name, c.Tok)
			}
		}
		// a call issued after Close fails fast
		post := mk(p.post, false)
		w.Start(post)
		settle()
		pkey := fmt.Sprintf("post=%s/buf=%d/%s", classOf(p.post), p.buf, p.state)
		done, err := callDone(post)
		switch {
		case !done:
			fail("C12/post-close-blocks", pkey, "%s: a %s issued after Close returned has not returned", name, p.post)
		case !world.IsOneWay(p.post) && err == nil:
			fail("C12/post-close-no-error", pkey, "%s: a %s issued after Close reports success", name, p.post)
		}
		// everything the manager created has terminated
		if lt := clientLibThreads(); len(lt) > 0 {
			fail("C12/goroutine-left", strings.Join(threadSites(lt), ","), "%s: client library goroutines still alive after Close: %v", name, lt)
		}
		for i, cn := range w.FW.Conns {
			if !cn.Closed() {
				fail("C12/connection-left", key, "%s: connection %d is still open after Close", name, i)
			}
		}
		// Close again, sequentially
		w.Mgr.Close()
		mc.Outcome("closed inflight-done=%v post-done=%v", len(inflight), done)
	}
}

func threadSites(ts []string) []string {
	seen := map[string]bool{}
	var out []string
	for _, t := range ts {
		if !seen[t] {
			seen[t] = true
			out = append(out, t)
		}
	}
	return out
}

// newConfigScenario: a configuration that adds a node to the pool is created after Close has returned, or
// concurrently with Close (adversary thread). Whatever the outcome of the creation, nothing the manager
// created may survive: every connection is closed and no client goroutine is alive once Close has returned
// and the creation has finished.
func newConfigScenario(concurrent bool) func() {
	return func() {
		w := world.New(world.Opts{N: 2, Window: 4})
		if w.Cfg == nil {
			return
		}
		w.Handle = func(h *world.HCtx) world.Reply { return world.Reply{} }
		name := fmt.Sprintf("close/new-configuration/concurrent=%v", concurrent)
		var cfg2 *dev.Configuration
		var cerr error
		created := false
		create := func() {
			cfg2, cerr = w.Mgr.NewConfiguration(w.Spec, w.Cfg.WithNewNodes(gorums.WithNodeList([]string{"127.0.0.1:9100"})))
			created = true
		}
		closed := false
		if concurrent {
			mc.GoNamed("creator", create)
			mc.GoLow("closer", func() { w.Mgr.Close(); closed = true })
		} else {
			w.Mgr.Close()
			closed = true
			create()
		}
		mc.Quiesce()
		for i := 0; i < 4 && mc.FireTimers(nil) > 0; i++ {
			mc.Quiesce()
		}
		if !closed || !created {
			fail("C12/close-blocked", "new-configuration", "%s: Close returned=%v, NewConfiguration returned=%v", name, closed, created)
		}
		if !concurrent && cerr == nil {
			// not required by the statement, but a configuration on a closed manager must at least be inert
			c := w.NewCall("QuorumCall")
			c.Cfg = cfg2
			c.Ctx = context.Background()
			c.Verdict = func(inv *world.QFInv) { inv.Quorum = len(inv.Keys) >= 3 }
			w.Start(c)
			mc.Quiesce()
			if !c.Returned {
				fail("C12/post-close-blocks", "new-configuration", "%s: a quorum call on a configuration created after Close has not returned", name)
			}
		}
		if lt := clientLibThreads(); len(lt) > 0 {
			fail("C12/goroutine-left", "new-configuration "+strings.Join(threadSites(lt), ","), "%s: client library goroutines still alive after Close: %v", name, lt)
		}
		for i, cn := range w.FW.Conns {
			if !cn.Closed() {
				fail("C12/connection-left", "new-configuration", "%s: connection %d is still open after Close (NewConfiguration error: %v)", name, i, cerr)
			}
		}
		mc.Outcome("created-err=%v", cerr != nil)
	}
}

// midCallCloseScenario: the manager is closed from inside the per-node function of a call on two nodes,
// that is, after the request has been handed over for node 1 and before it is for node 2 (a program may
// do this; it is also the deterministic form of "Close strikes between two hand-overs of one call"). With
// wait set, the per-node function returns only after everything Close caused has been processed (node 1
// has reported its lost stream). The call must return, later calls fail fast, nothing survives.
func midCallCloseScenario(kind string, wait bool, buf uint) func() {
	return func() {
		w := world.New(world.Opts{N: 2, Window: 4, SendBuffer: buf})
		if w.Cfg == nil {
			return
		}
		w.Handle = func(h *world.HCtx) world.Reply {
			world.Block()
			return world.Reply{}
		}
		name := fmt.Sprintf("close/in-per-node-function/%s/wait=%v/buf=%d", kind, wait, buf)
		key := fmt.Sprintf("%s/in-per-node-function", classOf(kind))
		c := w.NewCall(kind)
		c.Ctx = context.Background()
		c.Verdict = func(inv *world.QFInv) { inv.Level = len(inv.Keys); inv.Quorum = false }
		closed := false
		c.Hook = func(id uint32) {
			if id == 2 && !closed {
				w.Mgr.Close()
				closed = true
				if wait {
					w.Wait("closed")
				}
			}
		}
		settle := func() {
			mc.Quiesce()
			for i := 0; i < 4 && mc.FireTimers(nil) > 0; i++ {
				mc.Quiesce()
			}
		}
		w.Start(c)
		settle()
		if wait {
			w.Open("closed")
			settle()
		}
		if !closed {
			fail("C12/close-blocked", key, "%s: Close called from the per-node function has not returned", name)
		}
		if done, _ := callDone(c); !done {
			fail("C12/stranded-in-flight", key, "%s: the call during which Close ran has not returned (client library threads: %v)", name, clientLibThreads())
		}
		post := w.NewCall("QuorumCall")
		post.Ctx = context.Background()
		post.Verdict = c.Verdict
		w.Start(post)
		settle()
		if done, err := callDone(post); !done {
			fail("C12/post-close-blocks", key, "%s: a quorum call issued after Close returned has not returned", name)
		} else if err == nil {
			fail("C12/post-close-no-error", key, "%s: a quorum call issued after Close reports success", name)
		}
		if lt := clientLibThreads(); len(lt) > 0 {
			fail("C12/goroutine-left", strings.Join(threadSites(lt), ","), "%s: client library goroutines still alive after Close: %v", name, lt)
		}
		for i, cn := range w.FW.Conns {
			if !cn.Closed() {
				fail("C12/connection-left", key, "%s: connection %d is still open after Close", name, i)
			}
		}
		mc.Outcome("closed")
	}
}

func noConnectScenario() {
	mc.NoBranch(true)
	w := &world.W{}
	m := dev.NewManager(gorums.WithNoConnect())
	if _, err := m.NewConfiguration(world.NewSpec(w), gorums.WithNodeList([]string{"127.0.0.1:9001", "127.0.0.1:9002"})); err != nil {
		mc.Fail("setup", "%v", err)
		return
	}
	m.Close()
	m.Close()
	mc.Outcome("closed")
}

func closeInstances(tier string) []Instance {
	var out []Instance
	type k struct {
		kind string
		nsw  bool
	}
	kinds := []k{{"GRPCCall", false}, {"QuorumCall", false}, {"QuorumCallAsync", false}, {"Correctable", false}, {"CorrectableStream", false},
		{"Unicast", false}, {"Unicast", true}, {"Multicast", false}, {"Multicast", true}}
	posts := []string{"GRPCCall", "QuorumCall", "QuorumCallAsync", "CorrectableStream", "Unicast", "Multicast"}
	i := 0
	for _, kd := range kinds {
		for _, buf := range []uint{0, 1, 2} {
			for _, st := range []string{"connected", "down", "backoff", "blocking-dial-late-up"} {
				for _, blocks := range []bool{true, false} {
					for _, closers := range []int{1, 2} {
						if !thorough(tier) && ((closers == 2 && (buf == 2 || !blocks)) || (buf == 2 && !blocks)) {
							continue
						}
						bound := 2
						p := closeParams{kind: kd.kind, nsw: kd.nsw, buf: buf, state: st, blocks: blocks, closers: closers, post: posts[i%len(posts)]}
						i++
						out = append(out, Instance{Name: p.name(), Bound: bound, Root: closeScenario(p)})
					}
				}
			}
		}
	}
	// the stream is being re-created (node back, timers just expired) when Close strikes
	for _, kd := range kinds {
		if kd.nsw {
			continue
		}
		for _, buf := range []uint{0, 1} {
			if buf == 1 && !thorough(tier) && kd.kind != "GRPCCall" {
				continue
			}
			p := closeParams{kind: kd.kind, buf: buf, state: "healing", blocks: true, closers: 1, post: "GRPCCall"}
			out = append(out, Instance{Name: p.name(), Bound: 2, Root: closeScenario(p)})
		}
	}
	// two in-flight calls (one queued behind the other)
	for _, a := range []string{"GRPCCall", "Unicast", "CorrectableStream"} {
		for _, b := range []string{"GRPCCall", "QuorumCall", "Multicast"} {
			for _, buf := range []uint{0, 1} {
				p := closeParams{kind: a, second: b, buf: buf, state: "connected", blocks: true, closers: 1, post: "QuorumCall"}
				out = append(out, Instance{Name: p.name(), Bound: 1, Root: closeScenario(p)})
			}
		}
	}
	// two in-flight calls, the first of which is answered while the second waits (Close racing with a reply)
	for _, a := range []string{"GRPCCall", "QuorumCall", "CorrectableStream"} {
		for _, b := range []string{"GRPCCall", "QuorumCall", "QuorumCallAsync", "Correctable"} {
			for _, buf := range []uint{0, 1} {
				if buf == 1 && !thorough(tier) && a != "GRPCCall" {
					continue
				}
				p := closeParams{kind: a, second: b, buf: buf, state: "connected", blocks: true, mixed: true, closers: 1, post: "GRPCCall"}
				out = append(out, Instance{Name: p.name(), Bound: 2, Root: closeScenario(p)})
			}
		}
	}
	out = append(out, Instance{Name: "close/new-configuration/after-close", Bound: 1, Root: newConfigScenario(false)})
	cb := 1
	if thorough(tier) {
		cb = 2
	}
	out = append(out, Instance{Name: "close/new-configuration/concurrent-with-close", Bound: cb, Root: newConfigScenario(true)})
	out = append(out, Instance{Name: "close/no-connect-manager", Bound: 0, Root: noConnectScenario})
	for _, kind := range []string{"QuorumCallPerNodeArg", "QuorumCallAsyncPerNodeArg", "CorrectablePerNodeArg", "CorrectableStreamPerNodeArg", "MulticastPerNodeArg", "QuorumCallCombo", "CorrectableStreamCombo"} {
		for _, wait := range []bool{false, true} {
			for _, buf := range []uint{0, 1} {
				out = append(out, Instance{Name: fmt.Sprintf("close/in-per-node-function/%s/wait=%v/buf=%d", kind, wait, buf), Bound: 1, Root: midCallCloseScenario(kind, wait, buf)})
			}
		}
	}
	return out
}

func init() {
	register(&Check{ID: "C12",
		Rule:        "9 in-flight call variants with never-ending contexts (optionally two calls, both unanswered or the first one answered) x send buffer {0,1,2} x node state {connected, down at creation, crashed with the receiver in back-off, crashed and healing (node back and timers just expired when Close strikes), blocking dial timed out at creation and the server came up later} x handler {never answers, answers} x 1 or 2 concurrent Close calls as free-running threads placed by the explorer at every instant within the deviation bound (call queued, being written, awaiting replies), then a call of a rotating type issued after Close, then a further sequential Close; plus Close on a WithNoConnect manager; plus a configuration that adds a node to the pool created after Close or concurrently with it (nothing may survive); back-off timers are fired to a horizon before each oracle; oracle: no panic, every Close returns, every in-flight and post-Close call returns (with an error where the API has one), no client library goroutine is alive and every connection is closed at the end; an outcome is (instance, completion summary)",
		Gen:         closeInstances,
		Assumptions: []string{"'within bounded time' is decided in its eventual untimed form: after firing the armed library timers 4 rounds", "server-side goroutines (handlers that block forever by construction) are not counted as manager residue"},
	})
}
