package checks

import (
	"errors"
	"fmt"
	"strconv"
	"strings"

	"github.com/relab/gorums"

	"verif/mc"
	"verif/mc/fakegrpc"
	"verif/vp"
)

// C19: node sorters. Small-scope enumeration: every slice of length 0..L over 8
// node kinds (id x port x last error) and every key sequence of length 1..3.

type nodeKind struct {
	id   uint32
	port int
	err  bool
}

func (k nodeKind) String() string {
	e := ""
	if k.err {
		e = "!"
	}
	return fmt.Sprintf("%d:%d%s", k.id, k.port, e)
}

type sortKey struct {
	name string
	less func(a, b *gorums.RawNode) bool
	ref  func(k nodeKind) int
}

// sliceFamily enumerates input slices as index lists over the 8 node kinds.
type sliceFamily struct {
	maxKeys int // key sequences of length 1..maxKeys
	each    func(yield func(idx []int))
	onlySeq []int // if set: this key sequence only
}

// allSlices: every slice of length 0..maxLen over all kinds.
func allSlices(maxLen, kinds int) func(yield func(idx []int)) {
	return func(yield func(idx []int)) {
		for l := 0; l <= maxLen; l++ {
			idx := make([]int, l)
			for {
				yield(idx)
				p := l - 1
				for p >= 0 {
					idx[p]++
					if idx[p] < kinds {
						break
					}
					idx[p] = 0
					p--
				}
				if p < 0 {
					break
				}
			}
		}
	}
}

// overAlphabet: every slice of exactly length l over the given kinds.
func overAlphabet(l int, alphabet []int, first ...int) func(yield func(idx []int)) {
	return func(yield func(idx []int)) {
		pos := make([]int, l)
		copy(pos, first)
		idx := make([]int, l)
		for {
			for i, p := range pos {
				idx[i] = alphabet[p]
			}
			yield(idx)
			p := l - 1
			for p >= len(first) {
				pos[p]++
				if pos[p] < len(alphabet) {
					break
				}
				pos[p] = 0
				p--
			}
			if p < len(first) {
				break
			}
		}
	}
}

// periodic: every pattern of length 1..maxPeriod over all kinds, repeated to each of the given lengths.
func periodic(maxPeriod, kinds int, lengths []int) func(yield func(idx []int)) {
	return func(yield func(idx []int)) {
		allSlices(maxPeriod, kinds)(func(pat []int) {
			if len(pat) == 0 {
				return
			}
			for _, l := range lengths {
				idx := make([]int, l)
				for i := range idx {
					idx[i] = pat[i%len(pat)]
				}
				yield(idx)
			}
		})
	}
}

func c19Seq(fam sliceFamily, firstKey int) func(r *vp.InstResult) {
	return func(r *vp.InstResult) {
		cases, distinctIn := 0, 0
		seqRun(r, func() {
			fakegrpc.NewWorld(2)
			keys := []sortKey{
				{"ID", gorums.ID, func(k nodeKind) int { return int(k.id) }},
				{"Port", gorums.Port, func(k nodeKind) int { return k.port }},
				{"LastNodeError", gorums.LastNodeError, func(k nodeKind) int {
					if k.err {
						return 1
					}
					return 0
				}},
			}
			var kinds []nodeKind
			var nodes []*gorums.RawNode
			for id := uint32(1); id <= 2; id++ {
				for port := 1; port <= 2; port++ {
					for _, e := range []bool{false, true} {
						k := nodeKind{id, port, e}
						// port 1 = 9999, port 2 = 10000: the numeric order differs from the order of the digit strings
						n, err := gorums.NewRawNodeWithID("127.0.0.1:"+strconv.Itoa(9998+port), id)
						if err != nil {
							mc.Fail("setup", "%v", err)
							return
						}
						mgr := gorums.NewRawManager()
						if err := mgr.AddNode(n); err != nil {
							mc.Fail("setup", "%v", err)
							return
						}
						if e {
							gorums.VerifSetLastErr(n, errors.New("down"))
						}
						kinds = append(kinds, k)
						nodes = append(nodes, n)
					}
				}
			}
			kindOf := map[*gorums.RawNode]nodeKind{}
			for i, n := range nodes {
				kindOf[n] = kinds[i]
			}
			// (1) every provided key is a strict weak ordering on the node kinds
			for _, key := range keys {
				if firstKey >= 0 {
					break
				}
				for i, a := range nodes {
					cases++
					if key.less(a, a) {
						fail("C19/irreflexive", key.name, "%s reports less(a, a) for node kind %v", key.name, kinds[i])
					}
					for j, b := range nodes {
						if key.less(a, b) && key.less(b, a) {
							fail("C19/asymmetric", key.name, "%s reports less(a,b) and less(b,a) for %v, %v", key.name, kinds[i], kinds[j])
						}
						if key.less(a, b) != (key.ref(kinds[i]) < key.ref(kinds[j])) {
							fail("C19/key-order", key.name, "%s(%v, %v) = %v, the key values are %d and %d", key.name, kinds[i], kinds[j], key.less(a, b), key.ref(kinds[i]), key.ref(kinds[j]))
						}
						for _, c := range nodes {
							cases++
							if key.less(a, b) && key.less(b, c) && !key.less(a, c) {
								fail("C19/transitive", key.name, "%s is not transitive", key.name)
							}
							inc := func(x, y *gorums.RawNode) bool { return !key.less(x, y) && !key.less(y, x) }
							if inc(a, b) && inc(b, c) && !inc(a, c) {
								fail("C19/incomparability-transitive", key.name, "%s: incomparability is not transitive", key.name)
							}
						}
					}
				}
			}
			// (2) every slice x every key sequence: permutation + lexicographic order
			var keySeqs [][]int
			for l := 1; l <= fam.maxKeys; l++ {
				idx := make([]int, l)
				for {
					if idx[0] == firstKey {
						keySeqs = append(keySeqs, append([]int{}, idx...))
					}
					p := l - 1
					for p >= 0 {
						idx[p]++
						if idx[p] < len(keys) {
							break
						}
						idx[p] = 0
						p--
					}
					if p < 0 {
						break
					}
				}
			}
			if fam.onlySeq != nil {
				keySeqs = [][]int{fam.onlySeq}
			}
			outcomes := map[string]bool{}
			each := fam.each
			if firstKey < 0 {
				each = func(func([]int)) {}
				r.Outcomes["axioms"] = 1
			}
			each(func(idx []int) {
				{
					l := len(idx)
					distinctIn++
					if distinctIn&0xfff == 0 && expired() {
						r.Complete = false
						return
					}
					for _, ks := range keySeqs {
						cases++
						in := make([]*gorums.RawNode, l)
						for i, x := range idx {
							in[i] = nodes[x]
						}
						var less []func(a, b *gorums.RawNode) bool
						var names []string
						for _, k := range ks {
							less = append(less, keys[k].less)
							names = append(names, keys[k].name)
						}
						sorted := append([]*gorums.RawNode{}, in...)
						sortNodes(sorted, less)
						// permutation
						cnt := map[*gorums.RawNode]int{}
						for _, n := range in {
							cnt[n]++
						}
						for _, n := range sorted {
							cnt[n]--
						}
						for _, v := range cnt {
							if v != 0 {
								fail("C19/permutation", strings.Join(names, ","), "sorted slice is not a permutation of the input")
							}
						}
						for i := 1; i < len(sorted); i++ {
							a, b := kindOf[sorted[i-1]], kindOf[sorted[i]]
							// reference: b must not be lexicographically smaller than a
							for _, k := range ks {
								ra, rb := keys[k].ref(a), keys[k].ref(b)
								if rb < ra {
									fail("C19/lexicographic", strings.Join(names, ","), "OrderedBy(%s) on %v gives %v: %v before %v", strings.Join(names, ","), kindsOf(in, kindOf), kindsOf(sorted, kindOf), a, b)
								}
								if ra != rb {
									break
								}
							}
						}
						if l <= 2 {
							outcomes[fmt.Sprint(names, kindsOf(sorted, kindOf))] = true
						} else if l > 12 && len(outcomes) < 40 {
							outcomes[fmt.Sprint(names, kindsOf(sorted, kindOf))] = true
						}
					}
				}
			})
			for o := range outcomes {
				r.Outcomes[o] = 1
			}
		})
		r.Execs = cases
		r.States = distinctIn
		if r.Steps == 0 {
			r.Steps = cases
		}
		r.Sample = map[string]any{"slice": "[1:1 2:2! 1:2]", "keys": "LastNodeError,ID", "note": "node kinds are id:port with ! = last error set"}
	}
}

func sortNodes(nodes []*gorums.RawNode, less []func(a, b *gorums.RawNode) bool) {
	// OrderedBy takes the unexported lessFunc type; function values of the identical
	// underlying type are assignable.
	switch len(less) {
	case 1:
		gorums.OrderedBy(less[0]).Sort(nodes)
	case 2:
		gorums.OrderedBy(less[0], less[1]).Sort(nodes)
	case 3:
		gorums.OrderedBy(less[0], less[1], less[2]).Sort(nodes)
	}
}

func kindsOf(ns []*gorums.RawNode, m map[*gorums.RawNode]nodeKind) string {
	var out []string
	for _, n := range ns {
		out = append(out, m[n].String())
	}
	return "[" + strings.Join(out, " ") + "]"
}

func init() {
	register(&Check{ID: "C19",
		Rule: "enumeration on the real sorter over 8 node kinds (id in {1,2} x port in {9999, 10000} - written 1 and 2 below; their numeric order differs from the order of their digit strings - x last error nil/set, built through the public constructors): (a) every slice of length 0..4 (quick) / 0..5 (thorough) x every key sequence of length 1..3 over {ID, Port, LastNodeError}; (b) beyond the size thresholds of the library sort (12, 50): every slice of length 13 (thorough: 13 and 14) over the 3-kind alphabet {1:1, 1:2!, 2:2}, which has a tie under every key whose members differ under the other keys, x one two-key sequence per first key (thorough: every key sequence of length 1..3); (c) every pattern of period 1..3 over the 8 kinds repeated to lengths 13, 24, 51, 64 x every key sequence of length 1..3; plus the strict-weak-ordering axioms of each key on all pairs and triples; oracle: the result is a permutation of the input and adjacent elements are in lexicographic order of the reference key values; states = distinct input slices",
		Gen: func(tier string) []Instance {
			l := 4
			if thorough(tier) {
				l = 5
			}
			names := []string{"ID", "Port", "LastNodeError"}
			out := []Instance{{Name: "sorters/strict-weak-ordering-axioms", Seq: c19Seq(sliceFamily{}, -1)}}
			// kinds are indexed id-major, then port, then error: 1:1 = 0, 1:2! = 3, 2:2 = 6
			alphabet, an := []int{0, 3, 6}, []string{"1:1", "1:2!", "2:2"}
			for k, n := range names {
				out = append(out, Instance{Name: fmt.Sprintf("sorters/first-key=%s/len<=%d", n, l), Seq: c19Seq(sliceFamily{maxKeys: 3, each: allSlices(l, 8)}, k)})
				out = append(out, Instance{Name: fmt.Sprintf("sorters/first-key=%s/periodic/period<=3/len=13,24,51,64", n), Seq: c19Seq(sliceFamily{maxKeys: 3, each: periodic(3, 8, []int{13, 24, 51, 64})}, k)})
				for a := 0; a < 3; a++ {
					for b := 0; b < 3; b++ {
						if thorough(tier) {
							for _, bl := range []int{13, 14} {
								out = append(out, Instance{Name: fmt.Sprintf("sorters/first-key=%s/alphabet={1:1,1:2!,2:2}/len=%d/starts=%s,%s/keys<=3", n, bl, an[a], an[b]),
									Seq: c19Seq(sliceFamily{maxKeys: 3, each: overAlphabet(bl, alphabet, a, b)}, k)})
							}
							continue
						}
						second := (k + 1) % 2 // ID -> Port, Port -> ID, LastNodeError -> Port
						out = append(out, Instance{Name: fmt.Sprintf("sorters/keys=%s,%s/alphabet={1:1,1:2!,2:2}/len=13/starts=%s,%s", n, names[second], an[a], an[b]),
							Seq: c19Seq(sliceFamily{each: overAlphabet(13, alphabet, a, b), onlySeq: []int{k, second}}, k)})
					}
				}
			}
			return out
		},
		Assumptions: []string{"sort.Sort is deterministic for a given comparator; last errors are set through an accessor added by overlay", "slices longer than 5 are covered only by the two structured families, not by every slice"},
	})
}
