package checks

import (
	"errors"
	"fmt"
	"strconv"
	"strings"

	"github.com/relab/gorums"

	"verif/mc"
	"verif/mc/fakegrpc"
	"verif/vp"
)

// C19: node sorters. Small-scope enumeration: every slice of length 0..L over 8
// node kinds (id x port x last error) and every key sequence of length 1..3.

type nodeKind struct {
	id   uint32
	port int
	err  bool
}

func (k nodeKind) String() string {
	e := ""
	if k.err {
		e = "!"
	}
	return fmt.Sprintf("%d:%d%s", k.id, k.port, e)
}

type sortKey struct {
	name string
	less func(a, b *gorums.RawNode) bool
	ref  func(k nodeKind) int
}

func c19Seq(maxLen int, firstKey int) func(r *vp.InstResult) {
	return func(r *vp.InstResult) {
		cases, distinctIn := 0, 0
		seqRun(r, func() {
			fakegrpc.NewWorld(2)
			keys := []sortKey{
				{"ID", gorums.ID, func(k nodeKind) int { return int(k.id) }},
				{"Port", gorums.Port, func(k nodeKind) int { return k.port }},
				{"LastNodeError", gorums.LastNodeError, func(k nodeKind) int {
					if k.err {
						return 1
					}
					return 0
				}},
			}
			var kinds []nodeKind
			var nodes []*gorums.RawNode
			for id := uint32(1); id <= 2; id++ {
				for port := 1; port <= 2; port++ {
					for _, e := range []bool{false, true} {
						k := nodeKind{id, port, e}
						n, err := gorums.NewRawNodeWithID("127.0.0.1:"+strconv.Itoa(7000+port), id)
						if err != nil {
							mc.Fail("setup", "%v", err)
							return
						}
						mgr := gorums.NewRawManager()
						if err := mgr.AddNode(n); err != nil {
							mc.Fail("setup", "%v", err)
							return
						}
						if e {
							gorums.VerifSetLastErr(n, errors.New("down"))
						}
						kinds = append(kinds, k)
						nodes = append(nodes, n)
					}
				}
			}
			kindOf := map[*gorums.RawNode]nodeKind{}
			for i, n := range nodes {
				kindOf[n] = kinds[i]
			}
			// (1) every provided key is a strict weak ordering on the node kinds
			for _, key := range keys {
				if firstKey >= 0 {
					break
				}
				for i, a := range nodes {
					cases++
					if key.less(a, a) {
						fail("C19/irreflexive", key.name, "%s reports less(a, a) for node kind %v", key.name, kinds[i])
					}
					for j, b := range nodes {
						if key.less(a, b) && key.less(b, a) {
							fail("C19/asymmetric", key.name, "%s reports less(a,b) and less(b,a) for %v, %v", key.name, kinds[i], kinds[j])
						}
						if key.less(a, b) != (key.ref(kinds[i]) < key.ref(kinds[j])) {
							fail("C19/key-order", key.name, "%s(%v, %v) = %v, the key values are %d and %d", key.name, kinds[i], kinds[j], key.less(a, b), key.ref(kinds[i]), key.ref(kinds[j]))
						}
						for _, c := range nodes {
							cases++
							if key.less(a, b) && key.less(b, c) && !key.less(a, c) {
								fail("C19/transitive", key.name, "%s is not transitive", key.name)
							}
							inc := func(x, y *gorums.RawNode) bool { return !key.less(x, y) && !key.less(y, x) }
							if inc(a, b) && inc(b, c) && !inc(a, c) {
								fail("C19/incomparability-transitive", key.name, "%s: incomparability is not transitive", key.name)
							}
						}
					}
				}
			}
			// (2) every slice x every key sequence: permutation + lexicographic order
			var keySeqs [][]int
			for l := 1; l <= 3; l++ {
				idx := make([]int, l)
				for {
					if idx[0] == firstKey {
						keySeqs = append(keySeqs, append([]int{}, idx...))
					}
					p := l - 1
					for p >= 0 {
						idx[p]++
						if idx[p] < len(keys) {
							break
						}
						idx[p] = 0
						p--
					}
					if p < 0 {
						break
					}
				}
			}
			outcomes := map[string]bool{}
			if firstKey < 0 {
				maxLen = -1
				r.Outcomes["axioms"] = 1
			}
			for l := 0; l <= maxLen; l++ {
				idx := make([]int, l)
				for {
					distinctIn++
					for _, ks := range keySeqs {
						cases++
						in := make([]*gorums.RawNode, l)
						for i, x := range idx {
							in[i] = nodes[x]
						}
						var less []func(a, b *gorums.RawNode) bool
						var names []string
						for _, k := range ks {
							less = append(less, keys[k].less)
							names = append(names, keys[k].name)
						}
						sorted := append([]*gorums.RawNode{}, in...)
						sortNodes(sorted, less)
						// permutation
						cnt := map[*gorums.RawNode]int{}
						for _, n := range in {
							cnt[n]++
						}
						for _, n := range sorted {
							cnt[n]--
						}
						for _, v := range cnt {
							if v != 0 {
								fail("C19/permutation", strings.Join(names, ","), "sorted slice is not a permutation of the input")
							}
						}
						for i := 1; i < len(sorted); i++ {
							a, b := kindOf[sorted[i-1]], kindOf[sorted[i]]
							// reference: b must not be lexicographically smaller than a
							for _, k := range ks {
								ra, rb := keys[k].ref(a), keys[k].ref(b)
								if rb < ra {
									fail("C19/lexicographic", strings.Join(names, ","), "OrderedBy(%s) on %v gives %v: %v before %v", strings.Join(names, ","), kindsOf(in, kindOf), kindsOf(sorted, kindOf), a, b)
								}
								if ra != rb {
									break
								}
							}
						}
						if l <= 2 {
							outcomes[fmt.Sprint(names, kindsOf(sorted, kindOf))] = true
						}
					}
					p := l - 1
					for p >= 0 {
						idx[p]++
						if idx[p] < len(nodes) {
							break
						}
						idx[p] = 0
						p--
					}
					if p < 0 {
						break
					}
				}
			}
			for o := range outcomes {
				r.Outcomes[o] = 1
			}
		})
		r.Execs = cases
		r.States = distinctIn
		if r.Steps == 0 {
			r.Steps = cases
		}
		r.Sample = map[string]any{"slice": "[1:1 2:2! 1:2]", "keys": "LastNodeError,ID", "note": "node kinds are id:port with ! = last error set"}
	}
}

func sortNodes(nodes []*gorums.RawNode, less []func(a, b *gorums.RawNode) bool) {
	// OrderedBy takes the unexported lessFunc type; function values of the identical
	// underlying type are assignable.
	switch len(less) {
	case 1:
		gorums.OrderedBy(less[0]).Sort(nodes)
	case 2:
		gorums.OrderedBy(less[0], less[1]).Sort(nodes)
	case 3:
		gorums.OrderedBy(less[0], less[1], less[2]).Sort(nodes)
	}
}

func kindsOf(ns []*gorums.RawNode, m map[*gorums.RawNode]nodeKind) string {
	var out []string
	for _, n := range ns {
		out = append(out, m[n].String())
	}
	return "[" + strings.Join(out, " ") + "]"
}

func init() {
	register(&Check{ID: "C19",
		Rule: "small-scope enumeration on the real sorter: 8 node kinds (id in {1,2} x port in {1,2} x last error nil/set, built through the public constructors) ; every slice of length 0..4 (quick) / 0..5 (thorough) x every key sequence of length 1..3 over {ID, Port, LastNodeError}; plus the strict-weak-ordering axioms of each key on all pairs and triples; states = distinct input slices, an outcome is a distinct (key sequence, sorted slice) for slices of length <= 2",
		Gen: func(tier string) []Instance {
			l := 4
			if thorough(tier) {
				l = 5
			}
			out := []Instance{{Name: "sorters/strict-weak-ordering-axioms", Seq: c19Seq(l, -1)}}
			for k, n := range []string{"ID", "Port", "LastNodeError"} {
				out = append(out, Instance{Name: fmt.Sprintf("sorters/first-key=%s/len<=%d", n, l), Seq: c19Seq(l, k)})
			}
			return out
		},
		Assumptions: []string{"sort.Sort is deterministic for a given comparator; last errors are set through an accessor added by overlay"},
	})
}
