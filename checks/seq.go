package checks

import (
	"verif/mc"
	"verif/vp"
)

// seqRun executes body as the only thread of a scheduled execution (so that the
// instrumented library finds its runtime) without branching, and copies the
// violations into r. Used by the sequential enumerators (E2/E3).
func seqRun(r *vp.InstResult, body func()) {
	s := mc.Run(func() {
		mc.NoBranch(true)
		body()
	}, nil, 1<<40, false)
	for _, v := range s.Viol {
		dup := false
		for _, o := range r.Violations {
			if o.Rule == v.Rule && o.Key == v.Key {
				dup = true
			}
		}
		if !dup {
			r.Violations = append(r.Violations, vp.Viol{Rule: v.Rule, Key: v.Key, Msg: v.Msg})
		}
	}
	r.Steps += s.Steps
	if len(r.Violations) > 0 {
		r.Complete = false
	}
}
