package checks

import (
	"errors"
	"fmt"
	"math"
	"runtime/debug"
	"sort"
	"strings"

	"github.com/relab/gorums"
	"github.com/relab/gorums/ordering"
	"google.golang.org/genproto/googleapis/rpc/status"
	"google.golang.org/grpc/codes"
	"google.golang.org/protobuf/encoding/protowire"
	"google.golang.org/protobuf/proto"
	"google.golang.org/protobuf/reflect/protoreflect"
	"google.golang.org/protobuf/reflect/protoregistry"
	"google.golang.org/protobuf/types/known/anypb"
	"google.golang.org/protobuf/types/known/emptypb"

	grpcstatus "google.golang.org/grpc/status"

	"verif/mc"
	"verif/mc/fakegrpc"
	"verif/vp"
	"verif/world"
)

// C13: the wire codec. E3 enumeration: (a) round trip of every registered
// method x direction x message value x metadata; (b) decoding of every short
// byte string and of structured mutations of valid frames, including every
// full name of the protobuf registry in the method field.

func allMethods() []protoreflect.MethodDescriptor {
	var out []protoreflect.MethodDescriptor
	protoregistry.GlobalFiles.RangeFiles(func(fd protoreflect.FileDescriptor) bool {
		for i := 0; i < fd.Services().Len(); i++ {
			sd := fd.Services().Get(i)
			for j := 0; j < sd.Methods().Len(); j++ {
				out = append(out, sd.Methods().Get(j))
			}
		}
		return true
	})
	sort.Slice(out, func(i, j int) bool { return out[i].FullName() < out[j].FullName() })
	return out
}

// registryNames returns every full name known to the global registry, with its kind.
func registryNames() map[string]string {
	names := map[string]string{}
	var walkMsgs func(ms protoreflect.MessageDescriptors)
	walkEnums := func(es protoreflect.EnumDescriptors) {
		for i := 0; i < es.Len(); i++ {
			e := es.Get(i)
			names[string(e.FullName())] = "enum"
			for j := 0; j < e.Values().Len(); j++ {
				names[string(e.Values().Get(j).FullName())] = "enum value"
			}
		}
	}
	walkMsgs = func(ms protoreflect.MessageDescriptors) {
		for i := 0; i < ms.Len(); i++ {
			m := ms.Get(i)
			names[string(m.FullName())] = "message"
			for j := 0; j < m.Fields().Len(); j++ {
				names[string(m.Fields().Get(j).FullName())] = "field"
			}
			for j := 0; j < m.Oneofs().Len(); j++ {
				names[string(m.Oneofs().Get(j).FullName())] = "oneof"
			}
			for j := 0; j < m.Extensions().Len(); j++ {
				names[string(m.Extensions().Get(j).FullName())] = "extension"
			}
			walkEnums(m.Enums())
			walkMsgs(m.Messages())
		}
	}
	protoregistry.GlobalFiles.RangeFiles(func(fd protoreflect.FileDescriptor) bool {
		names[string(fd.Package())] = "package"
		walkMsgs(fd.Messages())
		walkEnums(fd.Enums())
		for i := 0; i < fd.Extensions().Len(); i++ {
			names[string(fd.Extensions().Get(i).FullName())] = "extension"
		}
		for i := 0; i < fd.Services().Len(); i++ {
			sd := fd.Services().Get(i)
			names[string(sd.FullName())] = "service"
			for j := 0; j < sd.Methods().Len(); j++ {
				names[string(sd.Methods().Get(j).FullName())] = "method"
			}
		}
		return true
	})
	return names
}

// values builds a small domain of messages of the given type.
func msgValues(md protoreflect.MessageDescriptor) []proto.Message {
	mt, err := protoregistry.GlobalTypes.FindMessageByName(md.FullName())
	if err != nil {
		return nil
	}
	out := []proto.Message{mt.New().Interface()}
	strs := []string{"a", "héllo ✓", strings.Repeat("x", 300)}
	ints := []int64{1, -1, math.MaxInt64, math.MinInt64}
	for i := 0; i < md.Fields().Len(); i++ {
		fd := md.Fields().Get(i)
		if fd.IsList() || fd.IsMap() {
			continue
		}
		switch fd.Kind() {
		case protoreflect.StringKind:
			for _, s := range strs {
				m := mt.New()
				m.Set(fd, protoreflect.ValueOfString(s))
				out = append(out, m.Interface())
			}
		case protoreflect.Int64Kind, protoreflect.Sint64Kind, protoreflect.Sfixed64Kind:
			for _, v := range ints {
				m := mt.New()
				m.Set(fd, protoreflect.ValueOfInt64(v))
				out = append(out, m.Interface())
			}
		case protoreflect.Uint64Kind, protoreflect.Fixed64Kind:
			for _, v := range []uint64{1, math.MaxUint64} {
				m := mt.New()
				m.Set(fd, protoreflect.ValueOfUint64(v))
				out = append(out, m.Interface())
			}
		case protoreflect.Int32Kind, protoreflect.Sint32Kind, protoreflect.Sfixed32Kind:
			for _, v := range []int32{1, -1, math.MaxInt32} {
				m := mt.New()
				m.Set(fd, protoreflect.ValueOfInt32(v))
				out = append(out, m.Interface())
			}
		case protoreflect.Uint32Kind, protoreflect.Fixed32Kind:
			m := mt.New()
			m.Set(fd, protoreflect.ValueOfUint32(math.MaxUint32))
			out = append(out, m.Interface())
		case protoreflect.BoolKind:
			m := mt.New()
			m.Set(fd, protoreflect.ValueOfBool(true))
			out = append(out, m.Interface())
		case protoreflect.BytesKind:
			m := mt.New()
			m.Set(fd, protoreflect.ValueOfBytes([]byte{0, 0xff, 0x80}))
			out = append(out, m.Interface())
		}
	}
	return out
}

func statuses() []*status.Status {
	out := []*status.Status{nil}
	detail, _ := anypb.New(&emptypb.Empty{})
	for c := 0; c <= 16; c++ {
		for _, msg := range []string{"", "x", "fél ✓"} {
			out = append(out, &status.Status{Code: int32(c), Message: msg})
		}
		out = append(out, &status.Status{Code: int32(c), Message: "d", Details: []*anypb.Any{detail}})
	}
	return out
}

type decodeResult struct {
	err      error
	panicked any
	stack    string
	msg      *gorums.Message
}

func safeDecode(codec *gorums.Codec, b []byte, kind int) (r decodeResult) {
	defer func() {
		if p := recover(); p != nil {
			r.panicked = p
			r.stack = string(debug.Stack())
		}
	}()
	r.msg = gorums.VerifNewMessage(kind)
	r.err = codec.Unmarshal(b, r.msg)
	return
}

func panicFunc(stack string) string {
	lines := strings.Split(stack, "\n")
	for i, l := range lines {
		if strings.HasPrefix(l, "panic(") {
			for j := i + 2; j < len(lines); j += 2 {
				f := lines[j]
				if k := strings.LastIndex(f, "("); k > 0 {
					f = f[:k]
				}
				if k := strings.LastIndex(f, "/"); k >= 0 {
					f = f[k+1:]
				}
				if !strings.HasPrefix(f, "runtime.") && f != "" {
					return f
				}
			}
		}
	}
	return "?"
}

func c13RoundTrip(r *vp.InstResult) {
	codec := gorums.NewCodec()
	cases := 0
	classes := map[string]bool{}
	sts := statuses()
	for _, m := range allMethods() {
		for dir := 1; dir <= 2; dir++ {
			desc := m.Input()
			if dir == 2 {
				desc = m.Output()
			}
			vals := msgValues(desc)
			for vi, v := range vals {
				for _, id := range []uint64{0, 1, math.MaxUint64} {
					for si, st := range sts {
						// full product on the first value, the status axis alone on the others
						if vi > 0 && si > 3 && id != 1 {
							continue
						}
						cases++
						md := &ordering.Metadata{MessageID: id, Method: string(m.FullName()), Status: st}
						b, err := codec.Marshal(&gorums.Message{Metadata: md, Message: v})
						if err != nil {
							addViol(r, "C13/encode-error", string(desc.FullName()), fmt.Sprintf("Marshal(%s, %v): %v", m.FullName(), v, err), nil)
							continue
						}
						d := safeDecode(codec, b, dir)
						key := fmt.Sprintf("dir=%d", dir)
						switch {
						case d.panicked != nil:
							addViol(r, "C13/roundtrip-panic", panicFunc(d.stack), fmt.Sprintf("decoding the encoding of %s %v panics: %v", m.FullName(), v, d.panicked), b)
						case d.err != nil:
							addViol(r, "C13/roundtrip-error", key, fmt.Sprintf("decoding the encoding of %s (%s) fails: %v", m.FullName(), desc.FullName(), d.err), b)
						case d.msg.Message == nil || d.msg.Message.ProtoReflect().Descriptor().FullName() != desc.FullName():
							addViol(r, "C13/roundtrip-type", key, fmt.Sprintf("%s: decoded message has type %T, want %s", m.FullName(), d.msg.Message, desc.FullName()), b)
						case !proto.Equal(d.msg.Message, v):
							addViol(r, "C13/roundtrip-message", key, fmt.Sprintf("%s: decoded %v, encoded %v", m.FullName(), d.msg.Message, v), b)
						case !proto.Equal(d.msg.Metadata, md):
							addViol(r, "C13/roundtrip-metadata", key, fmt.Sprintf("%s: decoded metadata %v, encoded %v", m.FullName(), d.msg.Metadata, md), b)
						}
						classes[fmt.Sprintf("%s/%d/%d", desc.FullName(), dir, len(b)/8)] = true
					}
				}
			}
		}
	}
	r.Execs, r.States, r.Steps = cases, cases, cases
	for k := range classes {
		r.Outcomes[k] = 1
	}
	r.Sample = map[string]any{"method": "dev.ZorumsService.QuorumCall", "direction": "response", "message": "Result:-1", "metadata": "MessageID=18446744073709551615 Status{Code:5 Message:\"fél ✓\"}"}
}

func addViol(r *vp.InstResult, rule, key, msg string, input []byte) {
	if i := strings.IndexByte(rule, '/'); i > 0 && Focus != "" && rule[:i] != Focus {
		return
	}
	for _, v := range r.Violations {
		if v.Rule == rule && v.Key == key {
			return
		}
	}
	v := vp.Viol{Rule: rule, Key: key, Msg: msg}
	if input != nil {
		v.Input = fmt.Sprintf("%x", input)
	}
	r.Violations = append(r.Violations, v)
	r.Complete = false
}

func validFrames(codec *gorums.Codec) (frames [][]byte, kinds []int) {
	add := func(method string, kind int, msg proto.Message, st *status.Status) {
		b, err := codec.Marshal(&gorums.Message{Metadata: &ordering.Metadata{MessageID: 7, Method: method, Status: st}, Message: msg})
		if err == nil {
			frames = append(frames, b)
			kinds = append(kinds, kind)
		}
	}
	ms := allMethods()
	for _, m := range ms {
		for dir := 1; dir <= 2; dir++ {
			desc := m.Input()
			if dir == 2 {
				desc = m.Output()
			}
			vals := msgValues(desc)
			v := vals[len(vals)/2]
			add(string(m.FullName()), dir, v, nil)
			if dir == 2 {
				add(string(m.FullName()), dir, v, &status.Status{Code: int32(codes.NotFound), Message: "nf"})
			}
		}
	}
	return
}

func c13Decode(part, parts int, maxLen int) func(r *vp.InstResult) {
	return func(r *vp.InstResult) {
		codec := gorums.NewCodec()
		cases := 0
		outcome := map[string]int{}
		try := func(b []byte, kind int, what string) {
			cases++
			d := safeDecode(codec, b, kind)
			switch {
			case d.panicked != nil:
				outcome["panic"]++
				addViol(r, "C13/decode-panic", panicFunc(d.stack)+": "+classOfPanic(d.panicked), fmt.Sprintf("decoding %s panics: %v", what, d.panicked), b)
			case d.err != nil:
				outcome["error:"+errClass(d.err)]++
			case d.msg == nil || d.msg.Message == nil || d.msg.Metadata == nil:
				// "an error or a message": the generated handlers and stubs assert the message's type unchecked,
				// so a decode that reports success must have delivered one
				outcome["success-without-message"]++
				addViol(r, "C13/decoded-without-message", "success without a message", fmt.Sprintf("decoding %s reports success but delivers no message (the generated code's type assertion on it would panic)", what), b)
			default:
				outcome["message"]++
			}
		}
		// every byte string up to maxLen, both directions (sharded on the first byte)
		if maxLen >= 0 && part == 0 {
			try(nil, 1, "the empty string")
			try(nil, 2, "the empty string")
		}
		for l := 1; l <= maxLen; l++ {
			buf := make([]byte, l)
			var rec func(i int)
			rec = func(i int) {
				if i == l {
					try(buf, 1, fmt.Sprintf("%x as a request", buf))
					try(buf, 2, fmt.Sprintf("%x as a response", buf))
					return
				}
				for v := 0; v < 256; v++ {
					if i == 0 && v%parts != part {
						continue
					}
					buf[i] = byte(v)
					rec(i + 1)
				}
			}
			rec(0)
			if expired() {
				r.Complete = false
				break
			}
		}
		// structured mutations of valid frames
		frames, kinds := validFrames(codec)
		names := registryNames()
		var nameList []string
		for n := range names {
			nameList = append(nameList, n)
		}
		sort.Strings(nameList)
		nameList = append(nameList, "", "no.such.Name", "dev.ZorumsService", "dev.ZorumsService.", ".dev.ZorumsService.QuorumCall", "dev.ZorumsService.QuorumCall.x", "\xff\xfe", "dev..x", strings.Repeat("a", 300))
		for fi, f := range frames {
			if fi%parts != part {
				continue
			}
			kind := kinds[fi]
			for i := 0; i <= len(f); i++ {
				try(f[:i], kind, fmt.Sprintf("prefix %d of valid frame %d", i, fi))
			}
			for i := range f {
				for _, v := range []byte{0x00, 0x01, 0x7f, 0x80, 0xff} {
					if f[i] == v {
						continue
					}
					g := append([]byte{}, f...)
					g[i] = v
					try(g, kind, fmt.Sprintf("valid frame %d with byte %d set to %#x", fi, i, v))
				}
			}
			// the other direction's decoder
			try(f, 3-kind, fmt.Sprintf("valid frame %d decoded in the other direction", fi))
			// re-assemble with perturbed length prefixes, swapped parts and every registry name as method
			mdBuf, n := protowire.ConsumeBytes(f)
			if n < 0 {
				continue
			}
			msgBuf, _ := protowire.ConsumeBytes(f[n:])
			build := func(mdLen uint64, md []byte, msgLen uint64, msg []byte) []byte {
				var b []byte
				b = protowire.AppendVarint(b, mdLen)
				b = append(b, md...)
				b = protowire.AppendVarint(b, msgLen)
				b = append(b, msg...)
				return b
			}
			for _, dl := range []int64{-1, 1, -int64(len(mdBuf)), 1 << 20, math.MaxInt64} {
				try(build(uint64(int64(len(mdBuf))+dl), mdBuf, uint64(len(msgBuf)), msgBuf), kind, fmt.Sprintf("frame %d with metadata length %+d", fi, dl))
				try(build(uint64(len(mdBuf)), mdBuf, uint64(int64(len(msgBuf))+dl), msgBuf), kind, fmt.Sprintf("frame %d with message length %+d", fi, dl))
			}
			try(build(uint64(len(msgBuf)), msgBuf, uint64(len(mdBuf)), mdBuf), kind, fmt.Sprintf("frame %d with metadata and message swapped", fi))
			try(build(uint64(len(mdBuf)), mdBuf, 0, nil)[:len(mdBuf)+1], kind, fmt.Sprintf("frame %d without message part", fi))
			if fi < 2*parts { // the name axis on the first frames of each shard (request and response)
				for _, name := range nameList {
					md := &ordering.Metadata{MessageID: 3, Method: name}
					mb, _ := proto.MarshalOptions{AllowPartial: true}.Marshal(md)
					if name == "\xff\xfe" {
						// invalid UTF-8 cannot be marshalled; splice it in by hand
						mb = protowire.AppendTag(nil, 2, protowire.BytesType)
						mb = protowire.AppendBytes(mb, []byte(name))
					}
					try(build(uint64(len(mb)), mb, uint64(len(msgBuf)), msgBuf), kind, fmt.Sprintf("a frame whose method field is %q (a %s)", name, nameKind(names, name)))
				}
			}
		}
		r.Execs, r.States, r.Steps = cases, cases, cases
		for k, v := range outcome {
			r.Outcomes[k] = v
		}
		r.Sample = map[string]any{"input": "0a0d08071209..(valid QuorumCall request frame with byte 3 set to 0xff)", "direction": "request", "outcome": "error"}
	}
}

func nameKind(names map[string]string, n string) string {
	if k, ok := names[n]; ok {
		return k
	}
	return "name that is not registered"
}

func classOfPanic(p any) string {
	s := fmt.Sprint(p)
	switch {
	case strings.Contains(s, "interface conversion"):
		return "interface conversion"
	case strings.Contains(s, "nil pointer"):
		return "nil pointer"
	case strings.Contains(s, "out of range"):
		return "index out of range"
	}
	if len(s) > 40 {
		s = s[:40]
	}
	return s
}

func errClass(err error) string {
	s := err.Error()
	switch {
	case strings.Contains(s, "not found"):
		return "not-found"
	case strings.Contains(s, "cannot parse"), strings.Contains(s, "proto:"):
		return "parse"
	case strings.Contains(s, "method"):
		return "not-a-method"
	}
	return "other"
}

func init() {
	register(&Check{ID: "C13",
		Rule: "small-scope enumeration on the real codec: (a) round trip of every method in the linked protobuf registry (dev.ZorumsService, ordering.Gorums) x {request, response} x message values (zero, each scalar field set to small/extreme/non-ASCII values) x MessageID in {0,1,2^64-1} x Status in {absent, codes 0..16 x 3 texts, with one Any detail}; (b) decoding of every byte string of length <= 3 (sharded) in both directions, and of every prefix, single-byte substitution {00,01,7f,80,ff} at every offset, perturbed length prefixes, swapped parts and every full name of the global registry (all descriptor kinds) plus unknown / malformed names in the method field of valid frames; (c) end to end: every status code x texts through a live stream, every sequence of 2..3 (thorough 4) calls on one stream over a 4-status alphabet {OK, NotFound a, PermissionDenied with empty text, NotFound b with one detail} - each caller sees exactly its own status - and 11 hostile frames injected into a live stream in both directions; an outcome is a distinct (decoder result class) or (message type, direction, size class)",
		Gen: func(tier string) []Instance {
			out := []Instance{{Name: "codec/roundtrip", Seq: c13RoundTrip}}
			parts := 16
			maxLen := 3 // 16.8 M strings per direction, a few seconds on 16 workers
			for p := 0; p < parts; p++ {
				out = append(out, Instance{Name: fmt.Sprintf("codec/decode/shard%d-of-%d/len<=%d", p, parts, maxLen), Seq: c13Decode(p, parts, maxLen)})
			}
			return append(out, c13E1(tier)...)
		},
		Assumptions: []string{"the registry is the one linked into the harness (gorums, ordering, dev/zorums, well-known types, grpc status); panics are detected by recover around Codec.Unmarshal"},
	})
}

// ---- end-to-end parts (E1): handler status reaches the caller; raw frames never crash a live stream ----

func c13Status(code codes.Code, text string) func() {
	return func() {
		w := world.New(world.Opts{N: 2})
		if w.Cfg == nil {
			return
		}
		want := grpcstatus.Error(code, text)
		w.Handle = func(h *world.HCtx) world.Reply { return world.Reply{Err: want} }
		rpc := w.NewCall("GRPCCall")
		rpc.Node = 1
		w.Start(rpc)
		qc := w.NewCall("QuorumCall")
		w.Start(qc)
		mc.Quiesce()
		if !rpc.Returned || !qc.Returned {
			mc.Fail("harness/not-returned", "calls did not return")
			return
		}
		st, ok := grpcstatus.FromError(rpc.Err)
		if !ok || st.Code() != code || st.Message() != text {
			fail("C13/status-e2e", "rpc", "handler returned status (%v, %q), the RPC caller got %v", code, text, rpc.Err)
		}
		if qc.Err == nil || !errors.Is(qc.Err, gorums.Incomplete) {
			fail("C13/status-e2e", "quorumcall", "handler errors on all nodes, quorum call returned %v", qc.Err)
		} else {
			for n := 1; n <= 2; n++ {
				if !strings.Contains(qc.Err.Error(), fmt.Sprintf("node %d: rpc error: code = %s desc = %s", n, code, text)) {
					fail("C13/status-e2e", "quorumcall", "status (%v, %q) of node %d not in %q", code, text, n, qc.Err.Error())
				}
			}
		}
		mc.Outcome("code=%v", code)
	}
}

// c13StatusSeq: a sequence of RPCs on one node's stream, each answered with its own scripted status.
// Every call must see exactly its own result: nothing of an earlier response may leak into a later one.
type scriptedStatus struct {
	code    codes.Code
	text    string
	details int
}

func (x scriptedStatus) String() string { return fmt.Sprintf("%d/%q/%d", x.code, x.text, x.details) }

var statusAlphabet = []scriptedStatus{
	{codes.OK, "", 0},
	{codes.NotFound, "a", 0},
	{codes.PermissionDenied, "", 0},
	{codes.NotFound, "b", 1},
}

func (x scriptedStatus) err() error {
	if x.code == codes.OK {
		return nil
	}
	st := grpcstatus.New(x.code, x.text)
	for i := 0; i < x.details; i++ {
		if d, err := st.WithDetails(&emptypb.Empty{}); err == nil {
			st = d
		}
	}
	return st.Err()
}

func c13StatusSeq(seq []int, last string) func() {
	return func() {
		w := world.New(world.Opts{N: 1})
		if w.Cfg == nil {
			return
		}
		script := map[int]scriptedStatus{}
		w.Handle = func(h *world.HCtx) world.Reply { return world.Reply{Err: script[h.Tok].err()} }
		var calls []*world.Call
		for i, x := range seq {
			kind := "GRPCCall"
			if i == len(seq)-1 {
				kind = last
			}
			c := w.NewCall(kind)
			c.Node = 1
			script[c.Tok] = statusAlphabet[x]
			calls = append(calls, c)
			w.Start(c)
			mc.Quiesce()
		}
		key := fmt.Sprint(seq)
		for i, c := range calls {
			want := statusAlphabet[seq[i]]
			if !c.Returned {
				fail("C13/status-sequence", key, "call %d of the sequence did not return", i+1)
				continue
			}
			if want.code == codes.OK {
				if c.Err != nil {
					fail("C13/status-sequence", key, "call %d of %v was answered without error, the caller got %v", i+1, seq, c.Err)
				}
				continue
			}
			if c.Err == nil {
				fail("C13/status-sequence", key, "call %d of %v was answered with status %v, the caller got no error", i+1, seq, want)
				continue
			}
			if c.Kind != "GRPCCall" {
				if !strings.Contains(c.Err.Error(), fmt.Sprintf("code = %s desc = %s", want.code, want.text)) {
					fail("C13/status-sequence", key, "call %d of %v: status %v not in %q", i+1, seq, want, c.Err.Error())
				}
				continue
			}
			st, ok := grpcstatus.FromError(c.Err)
			if !ok || st.Code() != want.code || st.Message() != want.text || len(st.Details()) != want.details {
				fail("C13/status-sequence", key, "call %d of %v was answered with status %v, the caller got (%v, %q, %d details)", i+1, seq, want, st.Code(), st.Message(), len(st.Details()))
			}
		}
		mc.Outcome("seq=%v", seq)
	}
}

func c13Inject(frameIdx int, toServer bool) func() {
	return func() {
		w := world.New(world.Opts{N: 1})
		if w.Cfg == nil {
			return
		}
		codec := gorums.NewCodec()
		frames := hostileFrames(codec)
		w.Handle = func(h *world.HCtx) world.Reply {
			if h.Tok == 1 {
				w.Wait("g")
			}
			return world.Reply{}
		}
		c := w.NewCall("GRPCCall")
		c.Node = 1
		w.Start(c)
		mc.Quiesce()
		var st *fakegrpc.Stream
		for _, s := range w.FW.Streams {
			if !s.Ended() {
				st = s
			}
		}
		if st == nil {
			mc.Fail("harness/no-stream", "no live stream")
			return
		}
		if toServer {
			st.InjectC2S(frames[frameIdx])
		} else {
			st.InjectS2C(frames[frameIdx])
		}
		mc.Quiesce()
		w.Open("g")
		mc.Quiesce()
		mc.FireTimers(nil)
		mc.Quiesce()
		// a panic in any library thread is recorded by the runtime (rule "panic")
		mc.Outcome("returned=%v err=%v", c.Returned, c.Err != nil)
	}
}

func hostileFrames(codec *gorums.Codec) [][]byte {
	mk := func(method string, msg proto.Message) []byte {
		b, _ := codec.Marshal(&gorums.Message{Metadata: &ordering.Metadata{MessageID: 1, Method: method}, Message: msg})
		return b
	}
	good := mk("dev.ZorumsService.GRPCCall", &emptypb.Empty{})
	return [][]byte{
		{},
		{0xff},
		{0x05, 0x01},
		good[:len(good)/2],
		mk("dev.Request", &emptypb.Empty{}),
		mk("dev.ZorumsService", &emptypb.Empty{}),
		mk("no.such.Method", &emptypb.Empty{}),
		mk("", &emptypb.Empty{}),
		mk("dev.ZorumsService.QuorumCallEmpty", &emptypb.Empty{}),
		append(append([]byte{}, good...), 0xff, 0xff),
		mk("ordering.Gorums.NodeStream", &emptypb.Empty{}),
	}
}

func c13E1(tier string) []Instance {
	var out []Instance
	for c := codes.Code(1); c <= 16; c++ {
		for _, text := range []string{"x", "fél ✓", ""} {
			out = append(out, Instance{Name: fmt.Sprintf("codec/status-e2e/code=%d/text=%q", c, text), Bound: 0, Root: c13Status(c, text)})
		}
	}
	maxSeq := 3
	if thorough(tier) {
		maxSeq = 4
	}
	for l := 2; l <= maxSeq; l++ {
		seq := make([]int, l)
		for {
			for _, last := range []string{"GRPCCall", "QuorumCall"} {
				out = append(out, Instance{Name: fmt.Sprintf("codec/status-sequence/%v/last=%s", seq, last), Bound: 0, Root: c13StatusSeq(append([]int{}, seq...), last)})
			}
			p := l - 1
			for p >= 0 {
				seq[p]++
				if seq[p] < len(statusAlphabet) {
					break
				}
				seq[p] = 0
				p--
			}
			if p < 0 {
				break
			}
		}
	}
	n := len(hostileFrames(gorums.NewCodec()))
	for i := 0; i < n; i++ {
		for _, srv := range []bool{true, false} {
			b := 0
			if thorough(tier) {
				b = 1
			}
			out = append(out, Instance{Name: fmt.Sprintf("codec/inject/frame=%d/to-server=%v", i, srv), Bound: b, Root: c13Inject(i, srv)})
		}
	}
	return out
}
