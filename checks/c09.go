package checks

import (
	"context"
	"fmt"
	"strings"

	"github.com/relab/gorums/cmd/protoc-gen-gorums/dev"

	"verif/mc"
	"verif/world"
)

// C09: finished or abandoned calls never disable a node. A workload of
// concurrent calls with cancellations, an optional fault and timers, followed
// by a probe RPC with a fresh context that must be delivered and answered.

type wlCall struct {
	kind    string
	cancel  bool // a free-running thread cancels the call's context
	k       int  // server stream replies
	doneAt  int  // quorum function reports done at this invocation (0: never)
	slowQF  bool // the first quorum-function invocation blocks until the script releases it
	abandon bool // the caller never looks at the call again (always true for async/correctable here)
}

func (c wlCall) String() string {
	s := c.kind
	if world.IsStream(c.kind) {
		s += fmt.Sprintf("(k=%d,done@%d", c.k, c.doneAt)
		if c.slowQF {
			s += ",slowQF"
		}
		s += ")"
	} else if c.doneAt > 0 {
		s += fmt.Sprintf("(done@%d)", c.doneAt)
	}
	if c.cancel {
		s += "+cancel"
	}
	return s
}

type usableParams struct {
	n      int
	calls  []wlCall
	fault  string // none, reset, restart
	timers bool   // a free-running thread fires the armed timers at some instant
	seq    bool   // workload calls are issued one after the other by one thread
}

func (p usableParams) name() string {
	var s []string
	for _, c := range p.calls {
		s = append(s, c.String())
	}
	sep := " || "
	if p.seq {
		sep = " ; "
	}
	return fmt.Sprintf("usable/n=%d/%s/fault=%s/timers=%v", p.n, strings.Join(s, sep), p.fault, p.timers)
}

func usableScenario(p usableParams) func() {
	return func() {
		w := world.New(world.Opts{N: p.n, Window: 4})
		if w.Cfg == nil {
			return
		}
		kOf := map[int]int{}
		w.Handle = func(h *world.HCtx) world.Reply {
			if h.Send != nil {
				for i := 0; i < kOf[h.Tok]; i++ {
					if err := h.Send(i, 0); err != nil {
						return world.Reply{}
					}
				}
			}
			return world.Reply{}
		}
		var calls []*world.Call
		for _, x := range p.calls {
			x := x
			c := w.NewCall(x.kind)
			if x.kind == "GRPCCall" || x.kind == "Unicast" {
				c.Node = 1
			}
			kOf[c.Tok] = x.k
			first := true
			c.Verdict = func(inv *world.QFInv) {
				if x.slowQF && first {
					first = false
					w.Wait(fmt.Sprintf("qf%d", c.Tok))
				}
				i := len(c.QF) + 1
				inv.Level = i
				switch {
				case world.IsCorrectable(x.kind):
					inv.Quorum = x.doneAt != 0 && i >= x.doneAt
				case x.doneAt != 0:
					inv.Quorum = i >= x.doneAt
				default:
					inv.Quorum = true // quorum at the first reply: the others arrive after the call returned
				}
			}
			calls = append(calls, c)
		}
		if p.seq {
			mc.GoNamed("client", func() {
				for _, c := range calls {
					w.Invoke(c)
				}
			})
		} else {
			for _, c := range calls {
				w.Start(c)
			}
		}
		for i, x := range p.calls {
			if x.cancel {
				c := calls[i]
				mc.GoLow(fmt.Sprintf("cancel-t%d", c.Tok), func() { c.Cancel(context.Canceled) })
			}
		}
		switch p.fault {
		case "reset":
			mc.GoLow("fault", func() { w.FW.Reset(world.Addr(1)) })
		case "restart":
			mc.GoLow("fault", func() { w.FW.Crash(world.Addr(1)); w.FW.Restart(world.Addr(1)) })
		}
		if p.timers {
			mc.GoLow("timers", func() {
				mc.Yield("timers.fire", &w.O)
				mc.FireTimers(nil)
			})
		}
		mc.Quiesce()
		for i, x := range p.calls {
			if x.slowQF {
				w.Open(fmt.Sprintf("qf%d", calls[i].Tok))
			}
		}
		mc.Quiesce()
		// let every armed back-off timer fire: only waits that no timer resolves count as "stuck"
		for i := 0; i < 4; i++ {
			if mc.FireTimers(nil) == 0 {
				break
			}
			mc.Quiesce()
		}
		// every handler of the workload has returned by now (handlers never block in this family)
		probe := w.NewCall("GRPCCall")
		probe.Node = 1
		w.Start(probe)
		mc.Quiesce()
		for i := 0; i < 4 && !probe.Returned; i++ {
			if mc.FireTimers(nil) == 0 {
				break
			}
			mc.Quiesce()
		}
		name := p.name()
		var ks []string
		for _, c := range p.calls {
			ks = append(ks, c.String())
		}
		key := fmt.Sprintf("%s fault=%s", strings.Join(ks, ","), p.fault)
		switch {
		case !probe.Returned:
			fail("C09/probe-stuck", key+" lock-waiters="+world.LockWaiters(), "%s: node 1 is reachable and every handler has returned, but a new RPC to it gets no answer (entered=%d; blocked library threads: %v)", name, w.Entered(1, probe.Tok), world.LibThreads())
			mc.Outcome("probe-stuck")
		case probe.Err != nil:
			fail("C09/probe-failed", key, "%s: node 1 is reachable and every back-off timer has fired, but a new RPC to it fails: %v", name, probe.Err)
			mc.Outcome("probe-failed")
		default:
			r, _ := probe.Resp.(*dev.Response)
			if tok, node, _, _ := world.Unstamp(r.GetResult()); tok != probe.Tok || node != 1 {
				fail("C05/foreign-reply", "probe", "%s: the probe received %d", name, r.GetResult())
			}
			mc.Outcome("probe-ok")
		}
		if lw := world.LockWaiters(); lw != "" && probe.Returned {
			fail("C09/lock-waiter", lw, "%s: library threads are blocked on locks at the end: %s", name, lw)
		}
		for _, c := range calls {
			checkGenuine(w, c, name)
		}
	}
}

// usableBlockedSendScenario: the receiver is parked in the middle of delivering a reply (a server-stream
// correctable A whose quorum function is blocked, reply channel full) while call B's write is blocked on a
// full transport window, so that B's context watcher is alive. Then B's context ends (the watcher cancels
// the stream), and only afterwards the quorum function continues and the receiver finishes its delivery.
// Afterwards the node must still be usable.
func usableBlockedSendScenario(kindB string, buf uint, cancelFirst bool) func() {
	return func() {
		w := world.New(world.Opts{N: 1, Window: 1, SendBuffer: buf})
		if w.Cfg == nil {
			return
		}
		tokA := 0
		w.Handle = func(h *world.HCtx) world.Reply {
			if h.Tok == tokA {
				// the handler keeps the connection (no release): the server stops reading, so later requests
				// pile up in the transport window; on the script's signal it streams three replies back to back
				w.Wait("s")
				for i := 0; i < 3; i++ {
					if h.Send(i, 0) != nil {
						break
					}
				}
				w.Wait("a")
			}
			return world.Reply{}
		}
		mk := func(kind string) *world.Call {
			c := w.NewCall(kind)
			if kind == "GRPCCall" || kind == "Unicast" {
				c.Node = 1
			}
			c.Verdict = func(inv *world.QFInv) { inv.Level = len(inv.Keys); inv.Quorum = true }
			return c
		}
		a := mk("CorrectableStream")
		tokA = a.Tok
		first := true
		a.Verdict = func(inv *world.QFInv) {
			if first {
				first = false
				w.Wait("qf")
			}
			inv.Level = len(a.QF) + 1
		}
		w.Start(a)
		mc.Quiesce()
		x := mk("Unicast") // fills the window
		x.NoSendWaiting = true
		w.Start(x)
		mc.Quiesce()
		b := mk(kindB)
		w.Start(b)
		mc.Quiesce() // B's write is blocked now
		w.Open("s")
		mc.Quiesce() // the quorum function is blocked on the first reply, the receiver on the full reply channel
		if cancelFirst {
			b.Cancel(context.Canceled)
			mc.Quiesce()
			w.Open("qf")
		} else {
			w.Open("qf")
			mc.GoLow("cancel", func() { b.Cancel(context.Canceled) })
		}
		mc.Quiesce()
		w.Open("a")
		a.Cancel(context.Canceled)
		mc.Quiesce()
		for i := 0; i < 4 && mc.FireTimers(nil) > 0; i++ {
			mc.Quiesce()
		}
		probe := w.NewCall("GRPCCall")
		probe.Node = 1
		w.Start(probe)
		mc.Quiesce()
		for i := 0; i < 4 && !probe.Returned; i++ {
			if mc.FireTimers(nil) == 0 {
				break
			}
			mc.Quiesce()
		}
		name := fmt.Sprintf("usable/parked-receiver/%s-cancelled-while-its-write-is-blocked/buf=%d/cancel-first=%v", kindB, buf, cancelFirst)
		key := kindB + "+cancel parked-receiver"
		switch {
		case !probe.Returned:
			fail("C09/probe-stuck", key+" lock-waiters="+world.LockWaiters(), "%s: node 1 is reachable and every handler has returned, but a new RPC to it gets no answer (entered=%d; blocked library threads: %v)", name, w.Entered(1, probe.Tok), world.LibThreads())
			mc.Outcome("probe-stuck")
		case probe.Err != nil:
			fail("C09/probe-failed", key, "%s: node 1 is reachable and every back-off timer has fired, but a new RPC to it fails: %v", name, probe.Err)
			mc.Outcome("probe-failed")
		default:
			mc.Outcome("probe-ok")
		}
	}
}

// usableOtherNodeStalledScenario: a server-stream correctable call on {1,2} with a context that never ends,
// while node 2 does not take requests (its server has stopped reading: one message in a handler that never
// releases, the window full, the sender blocked in its write). The call cannot finish handing over its
// request, and meanwhile node 1 - reachable, its handler releases and returns - streams k replies. Node 1
// must stay usable: a probe RPC to it is answered.
func usableOtherNodeStalledScenario(kind string, k int, buf uint) func() {
	return func() {
		w := world.New(world.Opts{N: 2, Window: 1, SendBuffer: buf})
		if w.Cfg == nil {
			return
		}
		blockers := map[int]bool{}
		w.Handle = func(h *world.HCtx) world.Reply {
			if blockers[h.Tok] {
				world.Block()
			}
			if h.Send != nil {
				h.Release()
				for i := 0; i < k; i++ {
					if h.Send(i, 0) != nil {
						break
					}
				}
			}
			return world.Reply{}
		}
		// node 2: one message in the never-releasing handler, one in the window, one blocked in the write
		// (and, with a send buffer, as many queued as the buffer holds)
		for i := 0; i < 3+int(buf); i++ {
			b := w.NewCall("Unicast")
			b.Node, b.NoSendWaiting = 2, true
			b.Ctx = context.Background()
			blockers[b.Tok] = true
			w.Start(b)
			mc.Quiesce()
		}
		a := w.NewCall(kind)
		a.Ctx = context.Background()
		a.Verdict = func(inv *world.QFInv) { inv.Level = len(a.QF) + 1; inv.Quorum = false }
		w.Start(a)
		mc.Quiesce()
		probe := w.NewCall("GRPCCall")
		probe.Node = 1
		w.Start(probe)
		mc.Quiesce()
		name := fmt.Sprintf("usable/other-node-stalled/%s/k=%d/buf=%d", kind, k, buf)
		key := kind + " other-node-stalled"
		switch {
		case !probe.Returned:
			fail("C09/probe-stuck", key+" lock-waiters="+world.LockWaiters(), "%s: node 1 is reachable and its handlers release and return, but a new RPC to it gets no answer while a stream call is still handing its request to node 2, which does not read (entered=%d; blocked library threads: %v)", name, w.Entered(1, probe.Tok), world.LibThreads())
			mc.Outcome("probe-stuck")
		case probe.Err != nil:
			fail("C09/probe-failed", key, "%s: a new RPC to node 1 fails: %v", name, probe.Err)
			mc.Outcome("probe-failed")
		default:
			mc.Outcome("probe-ok")
		}
	}
}

// usableAbandonedQueuedScenario: node 1's sender is stalled (blocked in a write: its server does not read),
// the send buffer has room. One goroutine issues two calls one after the other; each is queued behind the
// stalled sender and abandoned - its context ends - before the sender gets to it. Then the node crashes and
// listens again, the sender resumes and works through what was queued. Afterwards the node must be usable.
func usableAbandonedQueuedScenario(kind string, buf uint) func() {
	return func() {
		w := world.New(world.Opts{N: 1, Window: 1, SendBuffer: buf})
		if w.Cfg == nil {
			return
		}
		blockers := map[int]bool{}
		w.Handle = func(h *world.HCtx) world.Reply {
			if blockers[h.Tok] {
				world.Block()
			}
			return world.Reply{}
		}
		for i := 0; i < 3; i++ { // in the handler, in the window, blocked in the write
			x := w.NewCall("Unicast")
			x.Node, x.NoSendWaiting = 1, true
			x.Ctx = context.Background()
			blockers[x.Tok] = true
			w.Start(x)
			mc.Quiesce()
		}
		var calls []*world.Call
		for i := 0; i < 2; i++ {
			c := w.NewCall(kind)
			if kind == "GRPCCall" || kind == "Unicast" {
				c.Node = 1
			}
			c.Verdict = func(inv *world.QFInv) { inv.Level = len(inv.Keys); inv.Quorum = true }
			calls = append(calls, c)
		}
		mc.GoNamed("client", func() {
			for _, c := range calls {
				w.Invoke(c)
			}
		})
		for _, c := range calls {
			mc.Quiesce() // the call is queued behind the stalled sender (or waits at the hand-over)
			c.Cancel(context.Canceled)
		}
		mc.Quiesce()
		w.FW.Crash(world.Addr(1))
		mc.Quiesce()
		w.FW.Restart(world.Addr(1))
		mc.Quiesce()
		for i := 0; i < 5 && mc.FireTimers(nil) > 0; i++ {
			mc.Quiesce()
		}
		probe := w.NewCall("GRPCCall")
		probe.Node = 1
		w.Start(probe)
		mc.Quiesce()
		for i := 0; i < 4 && !probe.Returned; i++ {
			if mc.FireTimers(nil) == 0 {
				break
			}
			mc.Quiesce()
		}
		name := fmt.Sprintf("usable/abandoned-while-queued/%sx2/buf=%d", kind, buf)
		key := kind + " abandoned-while-queued"
		for i, c := range calls {
			if !c.Returned {
				fail("C08/not-returned", key, "%s: call %d has not returned although its context has ended", name, i+1)
			}
		}
		switch {
		case !probe.Returned:
			fail("C09/probe-stuck", key+" lock-waiters="+world.LockWaiters(), "%s: node 1 is reachable again and every back-off timer has fired, but a new RPC to it gets no answer (entered=%d; blocked library threads: %v)", name, w.Entered(1, probe.Tok), world.LibThreads())
			mc.Outcome("probe-stuck")
		case probe.Err != nil:
			fail("C09/probe-failed", key, "%s: a new RPC to node 1 fails: %v", name, probe.Err)
			mc.Outcome("probe-failed")
		default:
			mc.Outcome("probe-ok")
		}
	}
}

func usableInstances(tier string) []Instance {
	var out []Instance
	for _, kind := range []string{"Unicast", "Multicast", "GRPCCall", "QuorumCall", "QuorumCallAsync", "CorrectableStream"} {
		for _, buf := range []uint{0, 2} {
			out = append(out, Instance{Name: fmt.Sprintf("usable/abandoned-while-queued/%sx2/buf=%d", kind, buf), Bound: 1, Root: usableAbandonedQueuedScenario(kind, buf)})
		}
	}
	for _, kind := range []string{"CorrectableStream", "CorrectableStreamPerNodeArg", "CorrectableStreamCustomReturnType"} {
		for _, k := range []int{1, 3, 4} {
			for _, buf := range []uint{0, 1} {
				out = append(out, Instance{Name: fmt.Sprintf("usable/other-node-stalled/%s/k=%d/buf=%d", kind, k, buf), Bound: 1, Root: usableOtherNodeStalledScenario(kind, k, buf)})
			}
		}
	}
	for _, kb := range []string{"GRPCCall", "QuorumCall", "Unicast"} {
		for _, buf := range []uint{0, 1} {
			for _, cf := range []bool{true, false} {
				if buf == 1 && !thorough(tier) && kb != "GRPCCall" {
					continue
				}
				b := 1
				if thorough(tier) {
					b = 2
				}
				out = append(out, Instance{Name: fmt.Sprintf("usable/parked-receiver/%s-cancelled-while-its-write-is-blocked/buf=%d/cancel-first=%v", kb, buf, cf), Bound: b, Root: usableBlockedSendScenario(kb, buf, cf)})
			}
		}
	}
	add := func(p usableParams, bound int) {
		out = append(out, Instance{Name: p.name(), Bound: bound, Root: usableScenario(p)})
	}
	b1 := 1
	if thorough(tier) {
		b1 = 2
	}
	var singles []wlCall
	for k := 1; k <= 3; k++ {
		for _, d := range []int{0, 1} {
			for _, slow := range []bool{false, true} {
				singles = append(singles, wlCall{kind: "CorrectableStream", k: k, doneAt: d, slowQF: slow})
			}
		}
	}
	singles = append(singles,
		wlCall{kind: "CorrectableStream", k: 3, doneAt: 0, cancel: true},
		wlCall{kind: "CorrectableStream", k: 2, doneAt: 2, cancel: true},
		wlCall{kind: "QuorumCall", cancel: true},
		wlCall{kind: "QuorumCall"},
		wlCall{kind: "QuorumCallAsync", cancel: true},
		wlCall{kind: "Correctable", doneAt: 1},
		wlCall{kind: "Correctable", doneAt: 0, cancel: true},
		wlCall{kind: "GRPCCall", cancel: true},
		wlCall{kind: "Multicast", cancel: true},
		wlCall{kind: "Unicast", cancel: true},
	)
	for _, n := range []int{1, 2} {
		for _, c := range singles {
			for _, f := range []string{"none", "reset", "restart"} {
				for _, tm := range []bool{false, true} {
					if tm && f == "none" {
						continue
					}
					if n == 2 && !thorough(tier) && (f != "none" || c.k == 2) {
						continue
					}
					b := b1
					if n == 1 && !tm {
						b = 2
					}
					add(usableParams{n: n, calls: []wlCall{c}, fault: f, timers: tm}, b)
				}
			}
		}
	}
	// pairs of concurrent / sequential calls
	pairs := []wlCall{
		{kind: "QuorumCall", cancel: true},
		{kind: "QuorumCallAsync", cancel: true},
		{kind: "GRPCCall", cancel: true},
		{kind: "CorrectableStream", k: 2, doneAt: 1},
		{kind: "Correctable", doneAt: 1},
	}
	for _, a := range pairs {
		for _, b := range pairs {
			for _, f := range []string{"none", "reset"} {
				for _, seq := range []bool{false, true} {
					if !thorough(tier) && f == "reset" && seq {
						continue
					}
					add(usableParams{n: 1, calls: []wlCall{a, b}, fault: f, seq: seq}, 1)
				}
			}
		}
	}
	return out
}

func init() {
	register(&Check{ID: "C09",
		Rule:        "workloads on node 1 (configuration of 1 or 2 nodes): every single call from {correctable stream with k in 1..3 server replies x quorum function done at the first reply / never x fast / slow (blocked) quorum function, cancelled stream, quorum call, async, correctable, RPC, multicast, unicast, each optionally with its context cancelled by a free-running thread} and every ordered pair of 5 representatives (concurrent and sequential) x fault {none, stream reset, crash+restart as free-running threads} x a free-running thread that fires the armed timers at any instant; plus a family in which the receiver is parked in the middle of a delivery (stream call with a blocked quorum function) while another call's write is blocked on a full transport window and that call's context ends; then every back-off timer is fired to a horizon of 4 rounds and a probe RPC with a fresh context is issued; oracle: the probe is delivered and answered with its own stamped reply, and no library thread is left blocked on a lock; all schedules within the deviation bound; an outcome is (instance, probe result)",
		Gen:         usableInstances,
		Assumptions: []string{"handlers of the workload return at once (the property conditions on handlers that return or release)", "eventual form: armed library timers are fired before the probe and while it waits"},
	})
}
