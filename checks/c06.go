package checks

import (
	"context"
	"errors"
	"fmt"
	"strconv"
	"strings"

	"github.com/relab/gorums"
	"github.com/relab/gorums/cmd/protoc-gen-gorums/dev"
	"google.golang.org/protobuf/reflect/protoreflect"
	"google.golang.org/protobuf/types/known/wrapperspb"

	"verif/mc"
	"verif/world"
)

// C06: each node gets exactly its own message; one-way calls never wait for handlers.

type pnParams struct {
	kind  string
	n     int
	skip  []int
	extra int // threshold = targeted + extra
}

func (p pnParams) name() string {
	return fmt.Sprintf("pernode/%s/n=%d/skip=%v/thr=targeted+%d", p.kind, p.n, p.skip, p.extra)
}

func pnScenario(p pnParams) func() {
	return func() {
		w := world.New(world.Opts{N: p.n})
		if w.Cfg == nil {
			return
		}
		w.Handle = func(h *world.HCtx) world.Reply {
			if h.Send != nil {
				h.Send(0, 0)
			}
			return world.Reply{}
		}
		c := w.NewCall(p.kind)
		c.Skip = p.skip
		targeted := len(c.Targets())
		thr := targeted + p.extra
		c.Verdict = func(inv *world.QFInv) {
			inv.Level = len(inv.Keys)
			inv.Quorum = len(inv.Keys) >= thr
		}
		w.Start(c)
		mc.Quiesce()
		name, key := p.name(), classOf(p.kind)
		// delivery: node i received exactly f(req, i) / req, once; skipped nodes nothing
		for id := 1; id <= p.n; id++ {
			skipped := world.HasPerNode(p.kind) && contains(p.skip, id)
			var got []world.Event
			for _, e := range w.EventsOf("enter", id) {
				got = append(got, e)
			}
			switch {
			case skipped && len(got) > 0:
				fail("C06/skipped-node-contacted", key, "%s: node %d is skipped by the per-node function but received %q", name, id, got[0].Payload)
			case !skipped && len(got) != 1:
				fail("C06/delivery-count", key, "%s: node %d received the call %d times, expected exactly once", name, id, len(got))
			case !skipped:
				want := c.Req.Value
				if world.HasPerNode(p.kind) {
					want = fmt.Sprintf("%s/n%d", c.Req.Value, id)
				}
				if got[0].Payload != want {
					fail("C06/payload", key, "%s: node %d received %q, expected %q", name, id, got[0].Payload, want)
				}
				if got[0].Method != p.kind {
					fail("C17/method-binding", p.kind, "%s: handled by %s", name, got[0].Method)
				}
			}
		}
		// completion: skipped nodes are neither waited for nor counted
		switch {
		case world.IsOneWay(p.kind):
			if !c.Returned {
				fail("C06/oneway-waits", key, "%s: the one-way call has not returned although every message was delivered", name)
			}
		case world.IsSyncQC(p.kind):
			if !c.Returned {
				fail("C06/waits-for-skipped", key, "%s: the call has not returned although all %d targeted nodes answered", name, targeted)
				break
			}
			checkCounts(name, key, c.Err, targeted, p.extra)
			if c.Err == nil {
				_, isCustom := c.Resp.(*dev.MyResponse)
				if isCustom != world.IsCustom(p.kind) {
					fail("C17/return-type", p.kind, "%s: the call returned a %T", name, c.Resp)
				}
			}
		case world.IsAsync(p.kind):
			if !c.Returned || !c.Fut.Done() {
				fail("C06/waits-for-skipped", key, "%s: the future is not done although all %d targeted nodes answered", name, targeted)
				break
			}
			_, err := world.AsyncGet(c.Fut)
			checkCounts(name, key, err, targeted, p.extra)
		case world.IsCorrectable(p.kind) && !world.IsStream(p.kind):
			if !closedNow(c.Corr.Done()) {
				fail("C06/waits-for-skipped", key, "%s: the correctable is not done although all %d targeted nodes answered", name, targeted)
				break
			}
			_, _, err := world.CorrRawGet(c.Corr)
			checkCounts(name, key, err, targeted, p.extra)
		case world.IsStream(p.kind):
			done := closedNow(c.Corr.Done())
			want := (p.extra == 0 && targeted > 0) || targeted == 0
			if done != want {
				fail("C06/waits-for-skipped", key, "%s: correctable stream done=%v, expected %v with %d targeted nodes", name, done, want, targeted)
			}
		}
		for _, inv := range c.QF {
			for _, k := range inv.Keys {
				if contains(p.skip, int(k)) && world.HasPerNode(p.kind) {
					fail("C06/skipped-node-counted", key, "%s: the quorum function saw a reply of skipped node %d", name, k)
				}
			}
		}
		mc.Outcome("targeted=%d returned=%v", targeted, c.Returned)
	}
}

func checkCounts(name, key string, err error, targeted, extra int) {
	if extra == 0 && targeted > 0 {
		if err != nil {
			fail("C06/targeted-quorum", key, "%s: all %d targeted nodes replied and the threshold is %d, but the call failed: %v", name, targeted, targeted, err)
		}
		return
	}
	if !errors.Is(err, gorums.Incomplete) {
		fail("C06/counts", key, "%s: expected Incomplete with %d targeted nodes and threshold %d, got %v", name, targeted, targeted+extra, err)
		return
	}
	m := countsRe.FindStringSubmatch(err.Error())
	if m == nil {
		return
	}
	e, _ := strconv.Atoi(m[1])
	r, _ := strconv.Atoi(m[2])
	if e != 0 || r != targeted {
		fail("C06/counts", key, "%s: Incomplete reports errors=%d replies=%d, %d nodes were targeted and all replied", name, e, r, targeted)
	}
}

func contains(s []int, x int) bool {
	for _, v := range s {
		if v == x {
			return true
		}
	}
	return false
}

// ---- one-way calls ----

type owParams struct {
	kind  string
	nsw   bool
	state string // "blocked-handlers", "down", "window-full", "idle"
}

func (p owParams) name() string {
	return fmt.Sprintf("oneway/%s/nsw=%v/%s", p.kind, p.nsw, p.state)
}

func owScenario(p owParams) func() {
	return func() {
		n := 2
		if strings.HasPrefix(p.kind, "Unicast") {
			n = 1
		}
		o := world.Opts{N: n, Window: 1}
		if p.state == "down" {
			o.Down = make([]bool, n)
			for i := range o.Down {
				o.Down[i] = true
			}
		}
		w := world.New(o)
		if w.Cfg == nil {
			return
		}
		w.Handle = func(h *world.HCtx) world.Reply {
			if p.state != "idle" {
				world.Block() // handlers block for arbitrarily long (and never release)
			}
			return world.Reply{}
		}
		name, key := p.name(), classOf(p.kind)
		mk := func(nsw bool) *world.Call {
			c := w.NewCall(p.kind)
			c.NoSendWaiting = nsw
			if n == 1 {
				c.Node = 1
			}
			return c
		}
		if p.state == "window-full" {
			// two earlier messages: the first occupies the (never releasing) handler, the second fills the window
			for i := 0; i < 2; i++ {
				c := mk(true)
				w.Invoke(c)
				mc.Quiesce()
			}
		}
		c := mk(p.nsw)
		w.Start(c)
		mc.Quiesce()
		entered := 0
		for id := 1; id <= n; id++ {
			e := w.Entered(id, c.Tok)
			entered += e
			if e > 1 {
				fail("C06/delivery-count", key, "%s: node %d received the call %d times", name, id, e)
			}
		}
		switch p.state {
		case "idle", "blocked-handlers":
			if !c.Returned {
				fail("C06/oneway-waits-for-handler", key, "%s: the call has not returned; every handler is still running", name)
			}
			if entered != n {
				fail("C06/delivery-count", key, "%s: %d of %d reachable nodes received the message", name, entered, n)
			}
		case "down", "window-full":
			if p.nsw && !c.Returned {
				fail("C06/nsw-waits-for-connection", key, "%s: the call has not returned although WithNoSendWaiting was given (connection %s)", name, p.state)
			}
			if entered != 0 {
				mc.Fail("harness/unexpected-delivery", "%s: message delivered in state %s", name, p.state)
			}
		}
		mc.Outcome("returned=%v entered=%d", c.Returned, entered)
	}
}

// owSeqScenario: two one-way calls on the same nodes with a transport event in between (while the
// client is idle). Every message must be handled at most once - exactly once where the node is
// reachable again - whatever the library does to recover the stream.
func owSeqScenario(p owParams) func() {
	return func() {
		n := 2
		if strings.HasPrefix(p.kind, "Unicast") {
			n = 1
		}
		w := world.New(world.Opts{N: n, Window: 2})
		if w.Cfg == nil {
			return
		}
		w.Handle = func(h *world.HCtx) world.Reply { return world.Reply{} }
		name, key := p.name(), classOf(p.kind)
		mk := func() *world.Call {
			c := w.NewCall(p.kind)
			c.NoSendWaiting = p.nsw
			if n == 1 {
				c.Node = 1
			}
			return c
		}
		settle := func() {
			mc.Quiesce()
			for i := 0; i < 4; i++ {
				if mc.FireTimers(nil) == 0 {
					break
				}
				mc.Quiesce()
			}
		}
		c1 := mk()
		if p.state == "first-pre-cancelled" {
			c1.Cancel(context.Canceled)
		}
		w.Start(c1)
		if p.state == "first-cancelled-during" {
			mc.GoLow("cancel", func() { c1.Cancel(context.Canceled) })
		}
		mc.Quiesce()
		burst := strings.HasSuffix(p.state, "-burst")
		untimed := strings.HasSuffix(strings.TrimSuffix(p.state, "-burst"), "-untimed")
		switch strings.TrimSuffix(strings.TrimSuffix(p.state, "-burst"), "-untimed") {
		case "then-reset":
			for id := 1; id <= n; id++ {
				w.FW.Reset(world.Addr(id))
			}
		case "then-restart":
			for id := 1; id <= n; id++ {
				w.FW.Crash(world.Addr(id))
				w.FW.Restart(world.Addr(id))
			}
		}
		if untimed {
			// no back-off timer expires: the receiver still sleeps when the second message is sent, and
			// nothing but that message makes the client reconnect
			mc.Quiesce()
			settle = mc.Quiesce
		} else {
			settle()
		}
		c2 := mk()
		calls := []*world.Call{c1, c2}
		if burst {
			// two messages back to back from one goroutine: the second is handed over while the sender
			// is still busy (re)connecting for the first
			c3 := mk()
			calls = append(calls, c3)
			mc.GoNamed("burst", func() {
				w.Invoke(c2)
				w.Invoke(c3)
			})
		} else {
			w.Start(c2)
		}
		if p.state == "reset-during-second" || p.state == "restart-during-second" {
			// the fault strikes at an instant of the explorer's choosing while the second call is under way
			mc.GoLow("fault", func() {
				for id := 1; id <= n; id++ {
					if p.state == "reset-during-second" {
						w.FW.Reset(world.Addr(id))
					} else {
						w.FW.Crash(world.Addr(id))
						w.FW.Restart(world.Addr(id))
					}
				}
			})
		}
		settle()
		if untimed {
			// the history was untimed; the judgement is not: a send-waiting call may wait for the connection
			for i := 0; i < 4 && mc.FireTimers(nil) > 0; i++ {
				mc.Quiesce()
			}
		}
		for i, c := range calls {
			for id := 1; id <= n; id++ {
				e := w.Entered(id, c.Tok)
				if e > 1 {
					fail("C06/delivery-count", key, "%s: node %d handled one-way call %d %d times", name, id, i+1, e)
				}
				if e == 0 && c.Returned && c.Err == nil && (i == 0 || !p.nsw || strings.HasPrefix(p.state, "then-")) && !(i == 1 && strings.HasSuffix(p.state, "-during-second")) && !(i == 0 && strings.HasPrefix(p.state, "first-")) {
					fail("C06/delivery-count", key, "%s: node %d is reachable, call %d returned without error, but its message was never handled", name, id, i+1)
				}
			}
			if !c.Returned {
				fail("C06/oneway-waits", key, "%s: one-way call %d has not returned", name, i+1)
			}
		}
		mc.Outcome("c1=%d c2=%d err2=%v", w.Entered(1, c1.Tok), w.Entered(1, c2.Tok), c2.Err != nil)
	}
}

// pnEmptyScenario: the per-node function gives one node a valid message whose fields are all at their
// default values (an empty payload). That node must receive exactly that message, like every other node.
func pnEmptyScenario(n, empty int) func() {
	return func() {
		w := world.New(world.Opts{N: n})
		if w.Cfg == nil {
			return
		}
		w.Handle = func(h *world.HCtx) world.Reply { return world.Reply{} }
		c := w.NewCall("MulticastPerNodeArg")
		c.Empty = []int{empty}
		w.Start(c)
		mc.Quiesce()
		name := fmt.Sprintf("pernode/MulticastPerNodeArg/n=%d/all-default-message-for-node-%d", n, empty)
		for id := 1; id <= n; id++ {
			got := w.EventsOf("enter", id)
			want := fmt.Sprintf("%s/n%d", c.Req.Value, id)
			if id == empty {
				want = ""
			}
			switch {
			case len(got) != 1:
				fail("C06/delivery-count", "multicast/all-default-message", "%s: node %d received the call %d times, expected exactly once (its message is valid: every field at its default)", name, id, len(got))
			case got[0].Payload != want:
				fail("C06/payload", "multicast/all-default-message", "%s: node %d received %q, expected %q", name, id, got[0].Payload, want)
			}
		}
		if !c.Returned {
			fail("C06/oneway-waits", "multicast/all-default-message", "%s: the call has not returned", name)
		}
		mc.Outcome("ok")
	}
}

// pnMutateScenario: the per-node function changes the message it is given in place and returns it. The
// generated documentation says it receives a copy of the request, so this is legal; every node must still
// receive its own f(request, i), and the caller's request must be unchanged.
func pnMutateScenario(kind string, n int) func() { return pnCopyScenario(kind, n, false, nil) }

// pnCopyScenario: the per-node function treats its argument as its own copy - it changes it in place and
// returns it, or (scribble) reads it, overwrites it and returns a fresh message, or nothing for a skipped node.
func pnCopyScenario(kind string, n int, scribble bool, skip []int) func() {
	return func() {
		w := world.New(world.Opts{N: n})
		if w.Cfg == nil {
			return
		}
		w.Handle = func(h *world.HCtx) world.Reply {
			if h.Send != nil {
				h.Send(0, 0)
			}
			return world.Reply{}
		}
		c := w.NewCall(kind)
		c.MutateInPlace = !scribble
		c.Scribble = scribble
		c.Skip = skip
		c.Verdict = func(inv *world.QFInv) { inv.Level = len(inv.Keys); inv.Quorum = len(inv.Keys) >= n-len(skip) }
		w.Start(c)
		mc.Quiesce()
		name, key := fmt.Sprintf("pernode/%s/n=%d/function-changes-its-argument-in-place", kind, n), classOf(kind)+"/in-place"
		if scribble {
			name, key = fmt.Sprintf("pernode/%s/n=%d/skip=%v/function-overwrites-its-argument-and-returns-a-fresh-message", kind, n, skip), classOf(kind)+"/scribble"
		}
		for id := 1; id <= n; id++ {
			want := fmt.Sprintf("%s/n%d", c.Req0, id)
			var got []string
			for _, e := range w.EventsOf("enter", id) {
				got = append(got, e.Payload)
			}
			skipped := false
			for _, sk := range skip {
				skipped = skipped || sk == id
			}
			if skipped {
				if len(got) != 0 {
					fail("C06/skipped-node-contacted", key, "%s: node %d was skipped by the per-node function but received %q", name, id, got)
				}
				continue
			}
			if len(got) != 1 || got[0] != want {
				fail("C06/payload", key, "%s: node %d received %q, expected exactly %q (the per-node function is documented to receive a copy of the request)", name, id, got, want)
			}
		}
		if c.Req.Value != c.Req0 {
			fail("C06/request-modified", key, "%s: the caller's request was changed to %q by the per-node function, which is documented to receive a copy", name, c.Req.Value)
		}
		mc.Outcome("ok")
	}
}

// pnDeepMutateScenario: as pnMutateScenario, but the per-node function changes the *content* of a bytes
// field in place (a message with a bytes field whose wire form equals the request's, handed to the library's
// call entry points directly, as generated code does). A copy that shares the field's storage between the
// per-node messages makes every node receive the last node's argument and changes the caller's request.
func pnDeepMutateScenario(kind string, n int) func() {
	return func() {
		w := world.New(world.Opts{N: n})
		if w.Cfg == nil {
			return
		}
		w.Handle = func(h *world.HCtx) world.Reply { return world.Reply{} }
		const tok = 77
		req := &wrapperspb.BytesValue{Value: []byte(fmt.Sprintf("t%d/n0", tok))}
		orig := string(req.Value)
		f := func(m protoreflect.ProtoMessage, id uint32) protoreflect.ProtoMessage {
			b := m.(*wrapperspb.BytesValue)
			b.Value[len(b.Value)-1] = byte('0' + id)
			return b
		}
		raw := w.Cfg.RawConfiguration
		done := false
		mc.GoNamed("caller", func() {
			switch kind {
			case "QuorumCall":
				raw.QuorumCall(context.Background(), gorums.QuorumCallData{Message: req, Method: "dev.ZorumsService.QuorumCallPerNodeArg", PerNodeArgFn: f,
					QuorumFunction: func(_ protoreflect.ProtoMessage, r map[uint32]protoreflect.ProtoMessage) (protoreflect.ProtoMessage, bool) {
						return nil, len(r) >= n
					}})
			case "AsyncCall":
				raw.AsyncCall(context.Background(), gorums.QuorumCallData{Message: req, Method: "dev.ZorumsService.QuorumCallAsyncPerNodeArg", PerNodeArgFn: f,
					QuorumFunction: func(_ protoreflect.ProtoMessage, r map[uint32]protoreflect.ProtoMessage) (protoreflect.ProtoMessage, bool) {
						return nil, len(r) >= n
					}})
			case "CorrectableCall":
				raw.CorrectableCall(context.Background(), gorums.CorrectableCallData{Message: req, Method: "dev.ZorumsService.CorrectablePerNodeArg", PerNodeArgFn: f,
					QuorumFunction: func(_ protoreflect.ProtoMessage, r map[uint32]protoreflect.ProtoMessage) (protoreflect.ProtoMessage, int, bool) {
						return nil, len(r), len(r) >= n
					}})
			case "Multicast":
				raw.Multicast(context.Background(), gorums.QuorumCallData{Message: req, Method: "dev.ZorumsService.MulticastPerNodeArg", PerNodeArgFn: f})
			}
			done = true
		})
		mc.Quiesce()
		name, key := fmt.Sprintf("pernode/raw-%s/n=%d/function-changes-a-bytes-field-in-place", kind, n), kind+"/in-place-bytes"
		if !done && kind != "AsyncCall" && kind != "CorrectableCall" {
			fail("C06/call-stuck", key, "%s: the call has not returned although every node answered", name)
		}
		for id := 1; id <= n; id++ {
			want := fmt.Sprintf("t%d/n%d", tok, id)
			var got []string
			for _, e := range w.EventsOf("enter", id) {
				got = append(got, e.Payload)
			}
			if len(got) != 1 || got[0] != want {
				fail("C06/payload", key, "%s: node %d received %q, expected exactly %q (the per-node function is documented to receive a copy of the request)", name, id, got, want)
			}
		}
		if string(req.Value) != orig {
			fail("C06/request-modified", key, "%s: the caller's request was changed to %q by the per-node function, which is documented to receive a copy", name, req.Value)
		}
		mc.Outcome("ok")
	}
}

func c06Instances(tier string) []Instance {
	var out []Instance
	for _, kind := range []string{"MulticastPerNodeArg", "QuorumCallPerNodeArg", "QuorumCallAsyncPerNodeArg", "CorrectablePerNodeArg"} {
		for _, skip := range [][]int{nil, {1}, {2}, {1, 2}} {
			out = append(out, Instance{Name: fmt.Sprintf("pernode/%s/n=3/skip=%v/function-overwrites-its-argument-and-returns-a-fresh-message", kind, skip), Bound: 1, Root: pnCopyScenario(kind, 3, true, skip)})
		}
	}
	for _, kind := range []string{"QuorumCall", "AsyncCall", "CorrectableCall", "Multicast"} {
		for n := 2; n <= 3; n++ {
			out = append(out, Instance{Name: fmt.Sprintf("pernode/raw-%s/n=%d/function-changes-a-bytes-field-in-place", kind, n), Bound: 1, Root: pnDeepMutateScenario(kind, n)})
		}
	}
	for _, kind := range []string{"MulticastPerNodeArg", "QuorumCallPerNodeArg", "QuorumCallAsyncPerNodeArg", "CorrectablePerNodeArg"} {
		for n := 2; n <= 3; n++ {
			out = append(out, Instance{Name: fmt.Sprintf("pernode/%s/n=%d/function-changes-its-argument-in-place", kind, n), Bound: 1, Root: pnMutateScenario(kind, n)})
		}
	}
	for n := 1; n <= 3; n++ {
		for e := 1; e <= n; e++ {
			out = append(out, Instance{Name: fmt.Sprintf("pernode/MulticastPerNodeArg/n=%d/all-default-message-for-node-%d", n, e), Bound: 1, Root: pnEmptyScenario(n, e)})
		}
	}
	kinds := []string{"QuorumCallPerNodeArg", "QuorumCallCombo", "QuorumCallAsyncPerNodeArg", "QuorumCallAsyncCombo", "CorrectablePerNodeArg", "CorrectableCombo", "CorrectableStreamPerNodeArg", "CorrectableStreamCombo", "MulticastPerNodeArg",
		"QuorumCall", "QuorumCallCustomReturnType", "QuorumCallAsync", "Correctable", "CorrectableStream", "Multicast"}
	bound := 2
	for _, kind := range kinds {
		for n := 1; n <= 3; n++ {
			subsets := 1
			if world.HasPerNode(kind) {
				subsets = 1 << n
			}
			for m := 0; m < subsets; m++ {
				var skip []int
				for i := 0; i < n; i++ {
					if m&(1<<i) != 0 {
						skip = append(skip, i+1)
					}
				}
				for _, extra := range []int{0, 1} {
					if world.IsOneWay(kind) && extra == 1 {
						continue
					}
					b := bound
					if n == 3 && !thorough(tier) {
						b = 1
					}
					p := pnParams{kind: kind, n: n, skip: skip, extra: extra}
					out = append(out, Instance{Name: p.name(), Bound: b, Root: pnScenario(p)})
				}
			}
		}
	}
	for _, kind := range []string{"Unicast", "Unicast2", "Multicast", "Multicast2", "MulticastPerNodeArg"} {
		for _, nsw := range []bool{false, true} {
			for _, st := range []string{"idle", "blocked-handlers", "down", "window-full"} {
				p := owParams{kind: kind, nsw: nsw, state: st}
				out = append(out, Instance{Name: p.name(), Bound: bound, Root: owScenario(p)})
			}
		}
	}
	for _, kind := range []string{"Unicast", "Multicast", "MulticastPerNodeArg"} {
		for _, nsw := range []bool{false, true} {
			for _, st := range []string{"then-nothing", "then-reset", "then-restart", "then-reset-untimed", "then-restart-untimed", "then-nothing-burst", "then-reset-untimed-burst", "then-restart-untimed-burst", "then-restart-burst", "reset-during-second", "restart-during-second", "first-pre-cancelled", "first-cancelled-during"} {
				p := owParams{kind: kind, nsw: nsw, state: st}
				b := 1
				if thorough(tier) {
					b = 2
				}
				out = append(out, Instance{Name: "oneway-sequence/" + p.name(), Bound: b, Root: owSeqScenario(p)})
			}
		}
	}
	return out
}

func init() {
	register(&Check{ID: "C06",
		Rule:        "(a) n in 1..3 x every skip subset of the per-node function (node-distinct payloads) x 9 call variants that take one + 6 plain variants x threshold {targeted, targeted+1}: each server's received payload (also when the per-node function gives a node a valid all-default message, changes its argument in place, overwrites its argument and returns a fresh message or nothing, or changes the content of a bytes field of its argument in place), delivery count and the call's completion / counts are compared with f(request, i); (b) unicast / multicast variants x send-waiting on/off x node state {idle, handlers blocked forever, endpoints down, transport window full with earlier messages}: the call must have returned at the first quiescent point without any handler returning (and, with no-send-waiting, without the connection); (c) two one-way calls with {nothing, a stream reset, a crash and restart of every node - each also without any back-off timer expiring afterwards, and with two messages sent back to back by one goroutine afterwards} while the client is idle in between - or striking as an adversary thread during the second call, or the first call's context ending before / during it -, back-off timers fired to a horizon of 4 rounds: every message is handled at most once, and exactly once when the call reported no error; all schedules within the deviation bound; an outcome is (instance, returned, deliveries)",
		Gen:         c06Instances,
		Assumptions: []string{"'without waiting' is decided untimed: at quiescence, before any gate is opened or timer fired", "transport is the fakegrpc model with window 1 for the one-way family"},
	})
}

// C17 (dynamic half): every generated call variant of the zorums service is executed once
// against the puppet servers: the handler that runs is the one the descriptor names, it sees
// the request payload (per-node converted where declared), and the caller gets the declared type.
func init() {
	register(&Check{ID: "C17",
		Rule: "dynamic binding: each of the 27 generated zorums call variants the harness can drive is invoked on 2 nodes against puppet servers built from the (regenerated) stubs; the handler entered, the payload it receives and the static type of the result are compared with the method's declaration; each per-node variant is also run with a per-node function that excludes node 1, and each two-way variant with node 2's handler failing (stream handlers: right after one or two replies): every reply sent reaches the quorum function and the caller is told node 2's error; an outcome is the instance",
		Gen: func(tier string) []Instance {
			kinds := []string{"GRPCCall", "QuorumCall", "QuorumCallPerNodeArg", "QuorumCallCustomReturnType", "QuorumCallCombo",
				"QuorumCallAsync", "QuorumCallAsync2", "QuorumCallAsyncPerNodeArg", "QuorumCallAsyncCustomReturnType", "QuorumCallAsyncCombo",
				"Correctable", "CorrectablePerNodeArg", "CorrectableCustomReturnType", "CorrectableCombo",
				"CorrectableStream", "CorrectableStreamPerNodeArg", "CorrectableStreamCustomReturnType", "CorrectableStreamCombo",
				"Multicast", "Multicast2", "MulticastPerNodeArg", "Unicast", "Unicast2"}
			var out []Instance
			for _, k := range kinds {
				if k == "GRPCCall" || k == "Unicast" || k == "Unicast2" {
					p := owParams{kind: k, state: "idle"}
					if k == "GRPCCall" {
						out = append(out, Instance{Name: "binding-dynamic/" + k, Bound: 0, Root: rpcBinding()})
					} else {
						out = append(out, Instance{Name: "binding-dynamic/" + k, Bound: 0, Root: owScenarioBinding(p)})
					}
					continue
				}
				p := pnParams{kind: k, n: 2}
				out = append(out, Instance{Name: "binding-dynamic/" + k, Bound: 0, Root: pnScenario(p)})
				if world.HasPerNode(k) {
					// the per-node function excludes node 1 (returns nil): the typed nil must survive the stub's conversion
					ps := pnParams{kind: k, n: 2, skip: []int{1}}
					out = append(out, Instance{Name: "binding-dynamic/" + k + "/per-node-function-skips-node-1", Bound: 0, Root: pnScenario(ps)})
				}
				if world.IsStream(k) {
					for _, replies := range []int{1, 2} {
						out = append(out, Instance{Name: fmt.Sprintf("binding-dynamic/%s/node-2-fails/k=%d", k, replies), Bound: 1, Root: stubErrorScenario(k, replies)})
					}
				} else if !world.IsOneWay(k) {
					out = append(out, Instance{Name: "binding-dynamic/" + k + "/node-2-fails", Bound: 1, Root: stubErrorScenario(k, 0)})
				}
			}
			return out
		},
		Assumptions: []string{"the harness is compiled against the stubs regenerated from the working tree's templates"},
	})
}

// stubErrorScenario: node 1 answers, node 2's handler fails (a stream handler after k replies, without
// pausing): through the generated server and client stubs every reply that was sent reaches the quorum
// function with its own stamp and node 2's error reaches the caller.
func stubErrorScenario(kind string, k int) func() {
	return func() {
		stream := world.IsStream(kind)
		w := world.New(world.Opts{N: 2, Window: 8})
		if w.Cfg == nil {
			return
		}
		w.Handle = func(h *world.HCtx) world.Reply {
			if stream {
				for i := 0; i < k; i++ {
					if err := h.Send(i, i); err != nil {
						return world.Reply{Err: err}
					}
				}
			}
			if h.Node == 2 {
				return world.Reply{Err: handlerError(2)}
			}
			return world.Reply{}
		}
		c := w.NewCall(kind)
		c.Verdict = func(inv *world.QFInv) { inv.Level = len(c.QF) + 1; inv.Quorum = false }
		w.Start(c)
		mc.Quiesce()
		name := fmt.Sprintf("binding-dynamic/%s/node-2-fails/k=%d", kind, k)
		seen := map[[2]int]int{}
		for _, inv := range c.QF {
			for j := range inv.Keys {
				_, node, seq, _ := world.Unstamp(inv.Vals[j])
				seen[[2]int{node, seq}]++
			}
		}
		want := [][2]int{{1, 0}}
		if stream {
			want = nil
			for node := 1; node <= 2; node++ {
				for i := 0; i < k; i++ {
					want = append(want, [2]int{node, i})
				}
			}
		}
		for _, x := range want {
			if seen[x] == 0 {
				fail("C17/reply-lost", kind, "%s: reply %d of node %d was sent by the handler but never shown to the quorum function (invocations: %v)", name, x[1], x[0], c.QF)
			}
		}
		if len(seen) != len(want) {
			fail("C17/reply-lost", kind, "%s: the quorum function saw replies %v, the handlers sent %v", name, seen, want)
		}
		checkGenuine(w, c, name)
		var err error
		switch {
		case world.IsCorrectable(kind):
			_, _, err = world.CorrRawGet(c.Corr)
			if stream {
				err = nil // node 1's stream ended without error: the call is still open
				if closedNow(c.Corr.Done()) {
					fail("C17/return-value", kind, "%s: the stream call completed although node 1 never failed", name)
				}
			} else if !closedNow(c.Corr.Done()) {
				fail("C17/return-value", kind, "%s: every node has answered, the correctable is not done", name)
			}
		case world.IsAsync(kind):
			if !c.Fut.Done() {
				fail("C17/return-value", kind, "%s: every node has answered, the future is not done", name)
			} else {
				_, err = world.AsyncGet(c.Fut)
			}
		default:
			if !c.Returned {
				fail("C17/return-value", kind, "%s: every node has answered, the call has not returned", name)
			}
			err = c.Err
		}
		if !stream {
			if err == nil || !strings.Contains(err.Error(), "boom2") || strings.Contains(err.Error(), "node 1:") {
				fail("C17/return-value", kind, "%s: expected an incomplete call naming node 2's error only, got %v", name, err)
			}
		}
		mc.Outcome("ok")
	}
}

func owScenarioBinding(p owParams) func() {
	return func() {
		w := world.New(world.Opts{N: 1})
		if w.Cfg == nil {
			return
		}
		c := w.NewCall(p.kind)
		c.Node = 1
		w.Start(c)
		mc.Quiesce()
		ev := w.EventsOf("enter", 1)
		if len(ev) != 1 || ev[0].Method != p.kind || ev[0].Payload != c.Req.Value {
			fail("C17/method-binding", p.kind, "binding-dynamic/%s: handler events %v", p.kind, ev)
		}
		mc.Outcome("ok")
	}
}

func rpcBinding() func() {
	return func() {
		w := world.New(world.Opts{N: 1})
		if w.Cfg == nil {
			return
		}
		c := w.NewCall("GRPCCall")
		c.Node = 1
		w.Start(c)
		mc.Quiesce()
		ev := w.EventsOf("enter", 1)
		if len(ev) != 1 || ev[0].Method != "GRPCCall" || ev[0].Payload != c.Req.Value {
			fail("C17/method-binding", "GRPCCall", "binding-dynamic/GRPCCall: handler events %v", ev)
		}
		r, _ := c.Resp.(*dev.Response)
		if !c.Returned || c.Err != nil || r.GetResult() != world.Stamp(c.Tok, 1, 0, 0) {
			fail("C17/return-value", "GRPCCall", "binding-dynamic/GRPCCall: returned %v, %v", c.Resp, c.Err)
		}
		mc.Outcome("ok")
	}
}
