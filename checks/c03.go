package checks

import (
	"fmt"
	"strings"

	"github.com/relab/gorums/cmd/protoc-gen-gorums/dev"

	"verif/mc"
	"verif/world"
)

// C03: per-node FIFO across mixed call types. One client thread issues a
// sequence of calls; node 2's first handler is slow, so later requests queue
// behind a straggler; the oracle compares each server's handler start order
// with the issue order.

type callSpec struct {
	kind string
	nsw  bool
	node int  // for RPC / unicast
	sub  bool // issued on a second configuration that consists of node 2 only (shares the node with the first)
}

func (c callSpec) String() string {
	s := c.kind
	if c.node != 0 {
		s += fmt.Sprintf("@%d", c.node)
	}
	if c.nsw {
		s += "+nsw"
	}
	if c.sub {
		s += "/cfg{2}"
	}
	return s
}

var fifoAlphabet = []callSpec{
	{kind: "GRPCCall", node: 2},
	{kind: "QuorumCall"},
	{kind: "QuorumCallPerNodeArg"},
	{kind: "QuorumCallAsync"},
	{kind: "Correctable"},
	{kind: "CorrectableStream"},
	{kind: "Multicast"},
	{kind: "Multicast", nsw: true},
	{kind: "MulticastPerNodeArg"},
	{kind: "Unicast", node: 2},
	{kind: "Unicast", node: 2, nsw: true},
}

type fifoParams struct {
	seq     []callSpec
	buf     uint
	window  int
	threads int  // 1: one client thread; 2: second call issued by another thread after the first returned
	early   bool // every handler calls Release at once and keeps working (the pattern doc/ordering.md describes)
	noSlow  bool // no straggler: every handler returns at once
}

func (p fifoParams) name() string {
	var s []string
	for _, c := range p.seq {
		s = append(s, c.String())
	}
	e := ""
	if p.early {
		e = "/early-release"
	}
	if p.noSlow {
		e += "/no-straggler"
	}
	return fmt.Sprintf("fifo/%s/buf=%d/win=%d/threads=%d%s", strings.Join(s, ","), p.buf, p.window, p.threads, e)
}

func fifoScenario(p fifoParams) func() {
	return func() {
		w := world.New(world.Opts{N: 2, SendBuffer: p.buf, Window: p.window})
		if w.Cfg == nil {
			return
		}
		first2 := true
		w.Handle = func(h *world.HCtx) world.Reply {
			if p.early {
				h.Release()
				if h.Tok == 1 && p.noSlow {
					// keeps working after the early release; the script lets it return once the
					// server has moved on, and only then are the remaining calls issued
					w.Wait("early-done")
				}
			}
			if h.Node == 2 && first2 && !p.noSlow {
				first2 = false
				w.Wait("slow") // straggler: later requests to node 2 queue behind this handler
			}
			if h.Send != nil {
				h.Send(0, 0)
			}
			return world.Reply{}
		}
		var calls []*world.Call
		var sub *dev.Configuration
		for _, cs := range p.seq {
			c := w.NewCall(cs.kind)
			c.Node, c.NoSendWaiting = cs.node, cs.nsw
			if cs.sub {
				if sub == nil {
					mc.NoBranch(true)
					sub = w.SubConfig(2)
					mc.NoBranch(false)
				}
				c.Cfg = sub
			}
			calls = append(calls, c)
		}
		finished := 0
		if p.threads == 1 {
			mc.GoNamed("client", func() {
				for i, c := range calls {
					if i == 1 && p.early && p.noSlow {
						w.Wait("phase2")
					}
					w.Invoke(c)
				}
				finished = len(calls)
			})
		} else {
			// explicit happens-before between two goroutines: the second starts when the first call has returned
			mc.GoNamed("client-a", func() {
				w.Invoke(calls[0])
				finished++
				w.Open("handoff")
			})
			mc.GoNamed("client-b", func() {
				w.Wait("handoff")
				for _, c := range calls[1:] {
					w.Invoke(c)
				}
				finished += len(calls) - 1
			})
		}
		mc.Quiesce()
		if p.early && p.noSlow {
			w.Open("early-done")
			mc.Quiesce()
			w.Open("phase2")
			mc.Quiesce()
		}
		w.Open("slow")
		mc.Quiesce()
		if finished != len(calls) {
			fail("C03/progress", "client", "%s: the client finished %d of %d calls although no context was cancelled and no connection failed", p.name(), finished, len(calls))
		}
		// oracle: per server, handler starts follow the issue order; nothing twice; everything handled
		for node := 1; node <= 2; node++ {
			var want []int
			for _, c := range calls {
				for _, t := range c.Targets() {
					if t == node {
						want = append(want, c.Tok)
					}
				}
			}
			var got []int
			conns := map[int]bool{}
			seen := map[int]int{}
			for _, e := range w.EventsOf("enter", node) {
				got = append(got, e.Tok)
				conns[e.Conn] = true
				seen[e.Tok]++
				if seen[e.Tok] == 2 {
					fail("C03/handler-twice", pairKey(p.seq), "%s: node %d started the handler of call t%d twice", p.name(), node, e.Tok)
				}
			}
			if len(conns) > 1 {
				mc.Fail("harness/several-connections", "%s: node %d saw %d connections without a fault", p.name(), node, len(conns))
			}
			// order among the calls that did arrive
			pos := map[int]int{}
			for i, t := range want {
				pos[t] = i
			}
			for i := 1; i < len(got); i++ {
				if pos[got[i]] < pos[got[i-1]] {
					fail("C03/order", pairKey(p.seq), "%s: node %d started the handler of t%d (%s) before t%d (%s); issue order is %v, start order %v", p.name(), node, got[i-1], p.seq[got[i-1]-1], got[i], p.seq[got[i]-1], want, got)
					break
				}
			}
			if fmt.Sprint(got) != fmt.Sprint(want) && len(got) < len(want) {
				fail("C03/all-handled", pairKey(p.seq), "%s: node %d handled %v, targeted by %v (no cancel, no fault)", p.name(), node, got, want)
			}
			for _, e := range w.EventsOf("enter", node) {
				c := w.CallByTok(e.Tok)
				wantPayload := c.Req.Value
				if world.HasPerNode(c.Kind) {
					wantPayload = fmt.Sprintf("%s/n%d", c.Req.Value, node)
				}
				if e.Payload != wantPayload {
					fail("C06/payload", classOf(c.Kind), "%s: node %d received %q for call t%d, expected %q", p.name(), node, e.Payload, e.Tok, wantPayload)
				}
				if e.Method != c.Kind {
					fail("C17/method-binding", c.Kind, "%s: call %s was handled by %s", p.name(), c.Kind, e.Method)
				}
			}
		}
		mc.Outcome("entered=%d", len(w.EventsOf("enter", 0)))
	}
}

// fifoOutageScenario: calls issued while node 2 is down, with a send buffer, and the node coming back at an
// instant chosen by the explorer. Whatever is delivered on one (new) connection must be started in issue
// order and at most once; calls may be lost (their connection failed), never reordered.
func fifoOutageScenario(p fifoParams) func() {
	return func() {
		w := world.New(world.Opts{N: 2, SendBuffer: p.buf, Window: p.window})
		if w.Cfg == nil {
			return
		}
		w.Handle = func(h *world.HCtx) world.Reply {
			if h.Send != nil {
				h.Send(0, 0)
			}
			return world.Reply{}
		}
		first := w.NewCall("Unicast") // establishes node 2's stream
		first.Node = 2
		w.Invoke(first)
		mc.Quiesce()
		w.FW.Crash(world.Addr(2))
		mc.Quiesce()
		var calls []*world.Call
		for _, cs := range p.seq {
			c := w.NewCall(cs.kind)
			c.Node, c.NoSendWaiting = cs.node, cs.nsw
			calls = append(calls, c)
		}
		mc.GoNamed("client", func() {
			for _, c := range calls {
				w.Invoke(c)
			}
		})
		// the node comes back during round r of {activity until quiescence, all armed back-off timers fire}:
		// a free choice of the script; within the round the explorer places the restart (adversary thread)
		back := mc.Choose(4)
		for r := 0; r < 12; r++ {
			if r == back {
				mc.GoLow("restart", func() { w.FW.Restart(world.Addr(2)) })
			}
			mc.Quiesce()
			if mc.FireTimers(nil) == 0 && r > back {
				break
			}
		}
		mc.Quiesce()
		issue := map[int]int{}
		for i, c := range calls {
			issue[c.Tok] = i
		}
		last := map[int]int{} // connection -> issue index of the latest handler start
		seen := map[int]int{}
		var got []string
		for _, e := range w.EventsOf("enter", 2) {
			i, ok := issue[e.Tok]
			if !ok {
				continue
			}
			got = append(got, fmt.Sprintf("t%d@conn%d", e.Tok, e.Conn))
			seen[e.Tok]++
			if seen[e.Tok] == 2 {
				fail("C03/handler-twice", pairKey(p.seq), "%s: node 2 started the handler of call t%d twice (%v)", p.name(), e.Tok, got)
			}
			if l, ok := last[e.Conn]; ok && i < l {
				fail("C03/order", pairKey(p.seq), "%s: on connection %d node 2 started the handler of call %d of the sequence after that of call %d (%v)", p.name(), e.Conn, i+1, l+1, got)
			}
			last[e.Conn] = i
		}
		mc.Outcome("back=%d delivered=%v", back, got)
	}
}

func pairKey(seq []callSpec) string {
	var s []string
	for _, c := range seq {
		s = append(s, classOf(c.kind))
	}
	return strings.Join(s, ",")
}

func fifoInstances(tier string) []Instance {
	var out []Instance
	add := func(p fifoParams, bound int) {
		out = append(out, Instance{Name: p.name(), Bound: bound, Root: fifoScenario(p)})
	}
	for _, a := range fifoAlphabet {
		for _, b := range fifoAlphabet {
			for _, buf := range []uint{0, 1, 2} {
				for _, win := range []int{1, 3} {
					if !thorough(tier) && ((buf == 1 && win == 3) || (buf == 2 && win == 1)) {
						continue
					}
					bound := 1
					if thorough(tier) {
						bound = 2
					}
					add(fifoParams{seq: []callSpec{a, b}, buf: buf, window: win, threads: 1}, bound)
				}
			}
			add(fifoParams{seq: []callSpec{a, b}, buf: 0, window: 3, threads: 2}, 1)
		}
	}
	// calls on two configurations that share node 2: every ordered pair of {call on the full configuration,
	// call on the configuration {2}} over 4 variants
	shareKinds := []callSpec{{kind: "QuorumCall"}, {kind: "QuorumCallAsync"}, {kind: "Multicast", nsw: true}, {kind: "CorrectableStream"}}
	for _, a := range shareKinds {
		for _, b := range shareKinds {
			for _, which := range []int{1, 2, 3} {
				a2, b2 := a, b
				a2.sub, b2.sub = which&1 != 0, which&2 != 0
				add(fifoParams{seq: []callSpec{a2, b2}, buf: 1, window: 1, threads: 1}, 1)
			}
		}
	}
	// handlers that release early and keep working: pairs and triples over a reduced alphabet
	redE := []callSpec{{kind: "QuorumCallAsync"}, {kind: "Multicast", nsw: true}, {kind: "Unicast", node: 2, nsw: true}, {kind: "QuorumCall"}}
	for _, a := range redE {
		for _, b := range redE {
			add(fifoParams{seq: []callSpec{a, b}, buf: 0, window: 3, threads: 1, early: true}, 1)
			for _, c := range redE {
				bound := 1
				if thorough(tier) {
					bound = 2
				}
				add(fifoParams{seq: []callSpec{a, b, c}, buf: 1, window: 3, threads: 1, early: true}, bound)
				add(fifoParams{seq: []callSpec{a, b, c}, buf: 1, window: 3, threads: 1, early: true, noSlow: true}, bound)
			}
		}
	}
	// backlog: three no-send-waiting unicasts keep node 2's sender blocked (slow first handler, window 1), so the
	// request of the following call is still in the send buffer when that call completes on node 1's answer
	for _, last := range fifoAlphabet {
		for _, buf := range []uint{1, 2} {
			u := callSpec{kind: "Unicast", node: 2, nsw: true}
			add(fifoParams{seq: []callSpec{u, u, u, last}, buf: buf, window: 1, threads: 1}, 1)
		}
	}
	// outage: triples issued while node 2 is down, the node coming back at any instant (adversary thread)
	redO := []callSpec{{kind: "Unicast", node: 2, nsw: true}, {kind: "Multicast", nsw: true}, {kind: "Unicast", node: 2}, {kind: "QuorumCallAsync"}}
	for _, a := range redO {
		for _, b := range redO {
			for _, c := range redO {
				for _, buf := range []uint{0, 3} {
					if buf == 0 && !thorough(tier) && (a != b || b != c) {
						continue
					}
					p := fifoParams{seq: []callSpec{a, b, c}, buf: buf, window: 3, threads: 1}
					out = append(out, Instance{Name: "outage/" + p.name(), Bound: 1, Root: fifoOutageScenario(p)})
				}
			}
		}
	}
	// triples over a reduced alphabet (one representative per runtime path)
	red := []callSpec{{kind: "QuorumCall"}, {kind: "QuorumCallAsync"}, {kind: "CorrectableStream"}, {kind: "Multicast"}, {kind: "Multicast", nsw: true}, {kind: "Unicast", node: 2, nsw: true}, {kind: "GRPCCall", node: 2}}
	for _, a := range red {
		for _, b := range red {
			for _, c := range red {
				bufs := []uint{0, 2}
				if !thorough(tier) {
					bufs = []uint{1}
				}
				for _, buf := range bufs {
					bound := 0
					if thorough(tier) {
						bound = 1
					}
					add(fifoParams{seq: []callSpec{a, b, c}, buf: buf, window: 1, threads: 1}, bound)
				}
			}
		}
	}
	return out
}

func init() {
	register(&Check{ID: "C03",
		Rule:        "every ordered pair over 11 call variants (RPC, quorum call, per-node, async, correctable, correctable stream, multicast with/without send-waiting, per-node multicast, unicast with/without send-waiting) x send buffer {0,1,2} x transport window {1,3}, issued by one client thread or by two threads ordered by happens-before, plus pairs issued on two configurations that share node 2, every triple over 7 representatives a backlog family (three queued one-way messages, then each variant, send buffer {1,2}), and an outage family (every triple over 4 variants issued while node 2 is down, send buffer {0,3}, the node restarted by an adversary thread at any instant, back-off timers fired between quiescent points: per connection the delivered calls start in issue order, none twice); node 2's first handler is slow so stragglers of earlier calls are still queued; all schedules within the deviation bound; oracle: per server the handler start order equals the issue order, no handler twice, every targeted server handles every call; an outcome is (instance, number of handler starts)",
		Gen:         fifoInstances,
		Assumptions: []string{"transport is the fakegrpc model (ordered frames per stream, bounded window); quorum size 1 of 2", "interleavings up to the reported deviation bound"},
	})
}
