package checks

import (
	"context"
	"errors"
	"fmt"

	"github.com/relab/gorums"
	"google.golang.org/grpc/codes"
	"google.golang.org/grpc/status"

	"verif/mc"
	"verif/world"
)

// C08: every call returns once its context ends, whatever the nodes are doing.
// Strict (untimed) form: after the cancel, with no timer fired and no gate
// opened, the call has returned at quiescence.

type ctxParams struct {
	kind  string
	nsw   bool
	state string // down, silent, window-full, sender-busy
	buf   uint
	cause error
	pre   bool // the context has ended before the call is issued
}

func (p ctxParams) name() string {
	c := "canceled"
	if p.cause == context.DeadlineExceeded {
		c = "deadline"
	}
	if p.cause == error(appCause) {
		c = "canceled-with-cause"
	}
	if p.pre {
		c = "pre-" + c
	}
	k := p.kind
	if p.nsw {
		k += "+nsw"
	}
	return fmt.Sprintf("ctxend/%s/%s/buf=%d/%s", k, p.state, p.buf, c)
}

func ctxScenario(p ctxParams) func() {
	return func() {
		single := p.kind == "GRPCCall" || p.kind == "Unicast"
		n := 2
		if single {
			n = 1
		}
		o := world.Opts{N: n, Window: 1, SendBuffer: p.buf}
		if p.state == "down" {
			o.Down = []bool{true, false}[:n]
		}
		if p.state == "abandoned-stream" {
			o.Window = 4 // the servers' replies arrive faster than the abandoned call consumes them
		}
		w := world.New(o)
		if w.Cfg == nil {
			return
		}
		abandoned := 0
		w.Handle = func(h *world.HCtx) world.Reply {
			if h.Tok == abandoned {
				// the earlier stream call of state "abandoned-stream": every node streams three replies
				h.Release()
				w.Wait("stream")
				for i := 0; i < 3; i++ {
					if h.Send(i, 0) != nil {
						break
					}
				}
				return world.Reply{}
			}
			if h.Node == 1 {
				world.Block() // node 1 never answers and never releases
			}
			if h.Send != nil {
				h.Send(0, 0)
			}
			return world.Reply{}
		}
		if p.state == "nsw-then-reset" {
			// history: a no-send-waiting one-way message was written to node 1, then its stream was reset (and is
			// re-created): whatever that leaves behind must not hold up the call under test
			b := w.NewCall("Unicast")
			b.Node, b.NoSendWaiting = 1, true
			b.Ctx = context.Background()
			w.Invoke(b)
			mc.Quiesce()
			w.FW.Reset(world.Addr(1))
			mc.Quiesce()
		}
		if p.state == "crashed" {
			// node 1 was connected and has crashed: sender and receiver go through reconnect and its back-off
			w.FW.Crash(world.Addr(1))
			mc.Quiesce()
		}
		// background traffic on node 1 with contexts that never end
		bg := 0
		switch p.state {
		case "window-full":
			bg = 2 // handler occupied + window full: the next write blocks
		case "sender-busy":
			bg = 3 // the third message is stuck in SendMsg: later requests queue behind the sender
		}
		for i := 0; i < bg; i++ {
			b := w.NewCall("Unicast")
			b.Node, b.NoSendWaiting = 1, true
			b.Ctx = context.Background()
			w.Invoke(b)
			mc.Quiesce()
		}
		if p.state == "abandoned-stream" {
			// an earlier server-stream call on the same nodes is abandoned (its context ends, an adversary
			// thread) while the servers are streaming: its leftovers must not hold up the call under test
			x := w.NewCall("CorrectableStream")
			x.Verdict = func(inv *world.QFInv) { inv.Level = len(x.QF) + 1; inv.Quorum = false }
			abandoned = x.Tok
			w.Start(x)
			mc.Quiesce()
			w.Open("stream")
			mc.GoLow("cancel-stream", func() { x.Cancel(context.Canceled) })
			mc.Quiesce() // the call under test is issued once the abandoned call has been dealt with
		}
		c := w.NewCall(p.kind)
		c.NoSendWaiting = p.nsw
		if single {
			c.Node = 1
		}
		c.Verdict = func(inv *world.QFInv) {
			inv.Level = len(inv.Keys)
			inv.Quorum = len(inv.Keys) >= n // needs node 1, which never answers
		}
		if p.pre {
			c.Cancel(p.cause)
		}
		w.Start(c)
		if !p.pre {
			mc.GoLow("cancel", func() { c.Cancel(p.cause) })
		}
		mc.Quiesce()
		name := p.name()
		key := fmt.Sprintf("%s/%s/buf=%d", classOf(p.kind), p.state, p.buf)
		if p.nsw {
			key += "/nsw"
		}
		blockedIn := func() string {
			for _, t := range mc.LiveThreads() {
				if t.Name == fmt.Sprintf("client-t%d", c.Tok) {
					return t.Pending
				}
			}
			return "?"
		}
		var rerr error
		done := false
		switch {
		case !c.Returned:
		case world.IsAsync(p.kind):
			if c.Fut.Done() {
				done = true
				_, rerr = world.AsyncGet(c.Fut)
			}
		case world.IsCorrectable(p.kind):
			if closedNow(c.Corr.Done()) {
				done = true
				_, _, rerr = world.CorrRawGet(c.Corr)
			}
		default:
			done, rerr = true, c.Err
		}
		if !done {
			where := "the call has not returned"
			if c.Returned {
				where = "the future / correctable is not done"
			}
			fail("C08/not-returned", key, "%s: the context has ended (%v) but %s (caller blocked in %s; no timer fired, no handler returned)", name, p.cause, where, blockedIn())
			mc.Outcome("stuck")
			return
		}
		if !world.IsOneWay(p.kind) {
			switch {
			case rerr == nil:
				fail("C08/no-error", key, "%s: node 1 never answers, yet the call reports no error", name)
			case errors.Is(rerr, gorums.Incomplete):
				// every node answered with a reply or an error before the context ended
			case (p.state == "down" || p.state == "crashed") && p.kind == "GRPCCall" && status.Code(rerr) == codes.Unavailable:
				// the node's own failure was reported before (or together with) the context's end
			case !errors.Is(rerr, ctxErrOf(p.cause)):
				fail("C08/error-mismatch", key, "%s: the call reports %v, which does not match the context's error %v", name, rerr, ctxErrOf(p.cause))
			}
		}
		mc.Outcome("returned err=%v", rerr != nil)
	}
}

// slowConsumerScenario: another call's replies are consumed slowly - a server-stream correctable whose quorum
// function is blocked, so that node 1's receiver is parked on the full reply channel. A call issued to node 1
// in that state must still return once its own context ends.
func slowConsumerScenario(kind string) func() {
	return func() {
		w := world.New(world.Opts{N: 1, Window: 4})
		if w.Cfg == nil {
			return
		}
		tokA := 0
		w.Handle = func(h *world.HCtx) world.Reply {
			if h.Tok == tokA {
				h.Release()
				for i := 0; i < 3; i++ {
					if h.Send(i, 0) != nil {
						break
					}
				}
			}
			return world.Reply{}
		}
		a := w.NewCall("CorrectableStream")
		tokA = a.Tok
		first := true
		a.Verdict = func(inv *world.QFInv) {
			if first {
				first = false
				w.Wait("qf")
			}
			inv.Level = len(a.QF) + 1
		}
		w.Start(a)
		mc.Quiesce() // the receiver is parked on the full reply channel
		c := w.NewCall(kind)
		if kind == "GRPCCall" || kind == "Unicast" {
			c.Node = 1
		}
		c.Verdict = func(inv *world.QFInv) { inv.Quorum = true }
		w.Start(c)
		mc.GoLow("cancel", func() { c.Cancel(context.Canceled) })
		mc.Quiesce()
		name := "ctxend/" + kind + "/another-call-consumes-slowly"
		done, _ := callDone(c)
		if !done {
			fail("C08/not-returned", classOf(kind)+"/another-call-consumes-slowly", "%s: the context has ended but the call has not returned: it waits for the lock that node 1's receiver holds while it hands a reply to another call's slow quorum function", name)
			mc.Outcome("stuck")
		} else {
			mc.Outcome("returned")
		}
		w.Open("qf")
		a.Cancel(context.Canceled)
		mc.Quiesce()
	}
}

func ctxInstances(tier string) []Instance {
	var out []Instance
	for _, kind := range []string{"GRPCCall", "QuorumCall", "QuorumCallAsync", "Unicast"} {
		out = append(out, Instance{Name: "ctxend/" + kind + "/another-call-consumes-slowly", Bound: 1, Root: slowConsumerScenario(kind)})
	}
	type k struct {
		kind string
		nsw  bool
	}
	kinds := []k{{"GRPCCall", false}, {"QuorumCall", false}, {"QuorumCallAsync", false}, {"Correctable", false}, {"CorrectableStream", false},
		{"Unicast", false}, {"Unicast", true}, {"Multicast", false}, {"Multicast", true}}
	if thorough(tier) {
		kinds = append(kinds, k{"QuorumCallCombo", false}, k{"QuorumCallAsyncPerNodeArg", false}, k{"MulticastPerNodeArg", false})
	}
	for _, kd := range kinds {
		for _, st := range []string{"down", "silent", "window-full", "sender-busy", "abandoned-stream", "crashed", "nsw-then-reset"} {
			for _, buf := range []uint{0, 1, 2} {
				if buf == 2 && !thorough(tier) {
					continue
				}
				if st == "abandoned-stream" && buf == 1 && !thorough(tier) {
					continue
				}
				for _, cause := range []error{context.Canceled, context.DeadlineExceeded, appCause} {
					for _, pre := range []bool{false, true} {
						if cause == error(appCause) && (pre || st != "silent" || buf != 0) {
							continue
						}
						if pre && cause == context.DeadlineExceeded && !thorough(tier) {
							continue
						}
						bound := 2
						if st == "nsw-then-reset" && (buf != 0 || pre || cause != context.Canceled) {
							continue
						}
						if st == "abandoned-stream" {
							if pre || cause != context.Canceled {
								continue
							}
							if !thorough(tier) {
								bound = 1
							}
						}
						p := ctxParams{kind: kd.kind, nsw: kd.nsw, state: st, buf: buf, cause: cause, pre: pre}
						out = append(out, Instance{Name: p.name(), Bound: bound, Root: ctxScenario(p)})
					}
				}
			}
		}
	}
	return out
}

func init() {
	register(&Check{ID: "C08",
		Rule:        "9 call variants (12 thorough) x node-1 state {down at creation, crashed after it was connected (reconnect and back-off in progress), silent (handler never returns), window full (this call's write blocks), sender busy (an earlier message with a never-ending context is stuck in the write, this call queues behind it), an earlier server-stream call abandoned by an adversary thread while the servers stream, a no-send-waiting one-way message followed by a stream reset} x send buffer {0,1(,2)} x context end {Canceled, DeadlineExceeded, cancelled with a cause (silent state)} x {already ended before the call, ended by an adversary thread placed by the explorer at every instant within the deviation bound: before queuing, while queued, while being written, while waiting}; plus calls issued while node 1's receiver is parked handing a reply to another call's blocked quorum function; oracle (strict, untimed): at quiescence after the context ended - no timer fired, no handler returned - the call has returned / its future or correctable is done, and a reported error matches the context's error under errors.Is; an outcome is (instance, returned, error reported)",
		Gen:         ctxInstances,
		Assumptions: []string{"'promptly' is decided in its untimed form: completion by library-internal steps only, without any timer expiry or further message", "transport window 1 so that a non-reading server blocks the second unread write"},
	})
}
