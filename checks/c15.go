package checks

import (
	"context"
	"fmt"
	"strings"

	"github.com/relab/gorums"

	"verif/mc"
	"verif/mc/mcsync"
	"verif/world"
)

// C15: data races. The scenarios below run under the -race build of the harness:
// the scheduler's hand-offs are invisible to the detector and every modelled
// synchronisation operation announces the happens-before edges of the Go memory
// model, so ThreadSanitizer reports exactly the accesses the library itself leaves
// unordered - on every explored schedule. Scripts order their own steps through
// modelled primitives only (WaitGroup joins), never through quiescence.

type raceParams struct {
	workload string
	buf      uint
}

func (p raceParams) name() string { return fmt.Sprintf("race/%s/buf=%d", p.workload, p.buf) }

func raceScenario(p raceParams) func() {
	return func() {
		n := 2
		w := world.New(world.Opts{N: n, SendBuffer: p.buf, Window: 4, Metadata: true, PerNodeMD: true})
		if w.Cfg == nil {
			return
		}
		w.Handle = func(h *world.HCtx) world.Reply {
			if h.Send != nil {
				// released handlers keep streaming concurrently with later handlers
				h.Release()
				h.Send(0, 0)
				h.Send(1, 0)
			}
			return world.Reply{}
		}
		var wg mcsync.WaitGroup
		run := func(name string, f func()) {
			wg.Add(1)
			mc.GoNamed(name, func() {
				defer wg.Done()
				f()
			})
		}
		call := func(kind string, node int, cancel bool) func() {
			return func() {
				c := w.NewCall(kind)
				c.Node = node
				c.Verdict = func(inv *world.QFInv) { inv.Level = len(inv.Keys); inv.Quorum = len(inv.Keys) >= 1 }
				if cancel {
					mc.GoLow("cancel", func() { c.Cancel(context.Canceled) })
				}
				w.Invoke(c)
			}
		}
		switch p.workload {
		case "calls":
			run("a", func() { call("QuorumCall", 0, false)(); call("GRPCCall", 1, false)() })
			run("b", func() { call("QuorumCallAsync", 0, false)(); call("Multicast", 0, false)() })
			run("c", func() { call("CorrectableStream", 0, false)(); call("Unicast", 2, false)() })
		case "calls-cancel":
			run("a", call("QuorumCall", 0, true))
			run("b", call("GRPCCall", 1, true))
			run("c", call("Correctable", 0, true))
		case "config-vs-nodes":
			// creating configurations (pool re-sorted: new id below the existing ones) while others read the pool
			run("cfg", func() {
				w.Mgr.NewConfiguration(w.Spec, gorums.WithNodeMap(map[string]uint32{"127.0.0.1:9100": 0}))
			})
			run("nodes", func() {
				for _, nd := range w.Mgr.Nodes() {
					_ = nd.ID()
				}
				_ = w.Mgr.NodeIDs()
				_ = w.Mgr.Size()
			})
			run("cfg2", func() {
				w.Mgr.NewConfiguration(w.Spec, gorums.WithNodeIDs([]uint32{1, 2}))
			})
			run("call", call("QuorumCall", 0, false))
		case "and-shared":
			// two goroutines derive configurations from one operand that has spare capacity
			// (a union of overlapping operands, or a list with a repeated address, leaves the result with spare capacity)
			one, err := w.Mgr.NewConfiguration(w.Spec, gorums.WithNodeIDs([]uint32{1}))
			if err != nil {
				mc.Fail("setup", "%v", err)
				return
			}
			base, err := w.Mgr.NewConfiguration(w.Spec, one.And(one))
			if err != nil {
				mc.Fail("setup", "%v", err)
				return
			}
			other, _ := w.Mgr.NewConfiguration(w.Spec, gorums.WithNodeIDs([]uint32{2}))
			run("and1", func() { w.Mgr.NewConfiguration(w.Spec, base.And(other)) })
			run("and2", func() { w.Mgr.NewConfiguration(w.Spec, base.And(other)) })
			run("except", func() { w.Mgr.NewConfiguration(w.Spec, w.Cfg.Except(other)) })
		case "close-vs-new-configuration":
			// Close while another goroutine creates a configuration that adds a node to the pool
			run("a", call("QuorumCall", 0, false))
			run("cfg", func() {
				w.Mgr.NewConfiguration(w.Spec, w.Cfg.WithNewNodes(gorums.WithNodeList([]string{"127.0.0.1:9100"})))
			})
			run("close", func() { w.Mgr.Close() })
		case "restart":
			run("a", call("QuorumCall", 0, false))
			run("b", call("GRPCCall", 2, false))
			run("fault", func() { w.FW.Crash(world.Addr(2)); w.FW.Restart(world.Addr(2)) })
			run("c", call("GRPCCall", 2, false))
		case "close":
			run("a", call("QuorumCall", 0, false))
			run("b", call("Unicast", 1, false))
			run("close", func() { w.Mgr.Close() })
			run("lasterr", func() {
				for _, nd := range w.Mgr.Nodes() {
					_ = nd.LastErr()
					_ = nd.Latency()
				}
			})
		case "down-close":
			// the sender re-dials a node that was down at creation while Close runs
			w2 := world.New(world.Opts{N: 1, Down: []bool{true}, SendBuffer: p.buf})
			c := w2.NewCall("GRPCCall")
			c.Node = 1
			run("a", func() { w2.Invoke(c) })
			run("close", func() { w2.Mgr.Close() })
		case "correctable-observers":
			// several goroutines observe one correctable while the call's goroutine publishes and completes
			c := w.NewCall("CorrectableStream")
			c.Verdict = func(inv *world.QFInv) { inv.Level = len(c.QF) + 1; inv.Quorum = len(c.QF) >= 2 }
			w.Invoke(c)
			for i := 0; i < 2; i++ {
				run(fmt.Sprintf("obs%d", i), func() {
					world.CorrGet(c.Corr)
					ch := c.Corr.Watch(2)
					world.CorrRawGet(c.Corr)
					mc.Select(true, mc.RecvCase(ch))
					mc.Recv(c.Corr.Done())
					world.CorrGet(c.Corr)
				})
			}
		case "async-observers":
			c := w.NewCall("QuorumCallAsync")
			c.Verdict = func(inv *world.QFInv) { inv.Quorum = len(inv.Keys) >= 2 }
			w.Invoke(c)
			for i := 0; i < 2; i++ {
				run(fmt.Sprintf("get%d", i), func() { c.Fut.Done(); world.AsyncGet(c.Fut); c.Fut.Done() })
			}
		case "pernode-custom":
			run("a", call("QuorumCallCombo", 0, false))
			run("b", call("QuorumCallAsyncCombo", 0, true))
			run("c", call("CorrectableStreamCombo", 0, false))
			run("d", call("MulticastPerNodeArg", 0, false))
		case "reset-lasterr":
			run("a", call("QuorumCall", 0, false))
			run("fault", func() { w.FW.Reset(world.Addr(1)) })
			run("b", call("GRPCCall", 1, false))
			run("lasterr", func() {
				for _, nd := range w.Mgr.Nodes() {
					_ = nd.LastErr()
				}
			})
		case "addnodes-during-calls":
			run("a", call("QuorumCall", 0, false))
			run("cfg", func() {
				w.Mgr.NewConfiguration(w.Spec, w.Cfg.WithNewNodes(gorums.WithNodeList([]string{"127.0.0.1:9100"})))
			})
			run("b", call("Multicast", 0, false))
			run("ids", func() { _ = w.Mgr.NodeIDs(); _, _ = w.Mgr.Node(1) })
		case "blocked-send-cancel-reset":
			// a request whose SendMsg is blocked on a full transport window; then its context ends and the
			// stream is reset at the same time (the watcher of sendMsg, the sender and the receiver all react)
			w3 := world.New(world.Opts{N: 1, Window: 1, SendBuffer: p.buf})
			if w3.Cfg == nil {
				return
			}
			w3.Handle = func(h *world.HCtx) world.Reply { w3.Wait("g"); return world.Reply{} }
			for i := 0; i < 2; i++ {
				c := w3.NewCall("Unicast")
				c.Node, c.NoSendWaiting = 1, true
				w3.Invoke(c)
				mc.Quiesce()
			}
			x := w3.NewCall("GRPCCall")
			x.Node = 1
			run("x", func() { w3.Invoke(x) })
			mc.Quiesce()
			run("cancel", func() { x.Cancel(context.Canceled) })
			run("fault", func() { w3.FW.Reset(world.Addr(1)) })
			run("y", func() {
				c := w3.NewCall("GRPCCall")
				c.Node = 1
				mc.GoLow("cancel-y", func() { c.Cancel(context.Canceled) })
				w3.Invoke(c)
			})
			wg.Wait()
			mc.NoBranch(true)
			w3.Open("g")
			w3.Mgr.Close()
		case "server-streams":
			run("a", call("CorrectableStream", 0, false))
			run("b", call("CorrectableStream", 0, true))
			run("c", call("QuorumCall", 0, false))
		}
		wg.Wait()
		mc.NoBranch(true)
		w.Mgr.Close()
		mc.Outcome("done")
	}
}

func raceInstances(tier string) []Instance {
	var out []Instance
	for _, wl := range []string{"calls", "calls-cancel", "config-vs-nodes", "and-shared", "restart", "close", "down-close", "server-streams",
		"correctable-observers", "async-observers", "pernode-custom", "reset-lasterr", "addnodes-during-calls", "blocked-send-cancel-reset", "close-vs-new-configuration"} {
		for _, buf := range []uint{0, 1} {
			if buf == 1 && !thorough(tier) && wl != "close" && wl != "calls" {
				continue
			}
			bound := 1
			if thorough(tier) {
				bound = 2
			}
			p := raceParams{workload: wl, buf: buf}
			out = append(out, Instance{Name: p.name(), Bound: bound, Root: raceScenario(p), NoCache: false})
		}
	}
	// The scenario families of the behavioural checks, re-run under the race build: their faults, cancellations,
	// Close calls and gates reach states the workloads above do not. Only race reports (and panics) count here;
	// the families' own oracles belong to their properties and are dropped (Focus).
	for _, src := range []string{"C03", "C04", "C05", "C06", "C07", "C08", "C09", "C10", "C11", "C12", "C18"} {
		c := Get(src)
		if c == nil {
			continue
		}
		for _, in := range c.Gen("quick") {
			if in.Root == nil {
				continue
			}
			if strings.Contains(in.Name, "/late-registration") {
				// Registering a handler on a server that is already serving is not among the concurrent uses
				// C15 lists (the handler table is set up before the server accepts, as with grpc's own
				// registration, which refuses it outright); the table is unsynchronised by design.
				continue
			}
			in.Name = "race+" + src + "/" + in.Name
			b := 0
			if thorough(tier) && in.Bound > 0 {
				b = 1
			}
			in.Bound, in.StartBound, in.PruneFrom = b, 0, 0
			out = append(out, in)
		}
	}
	return out
}

func init() {
	register(&Check{ID: "C15",
		Rule:        "15 concurrent workloads over one manager (all call types from three goroutines; calls with concurrent cancellations; configuration creation that re-sorts the node pool concurrently with Nodes/NodeIDs/Size and calls; And/Except from two goroutines on shared operands; crash+restart during traffic; Close during traffic with LastErr/Latency readers; Close racing with the sender's re-dial of a down node; released server handlers streaming concurrently; several observers of one correctable / one future; per-node + custom-type variants; stream reset with LastErr readers; WithNewNodes during calls; context end and stream reset while a send is blocked on a full transport window; Close while another goroutine creates a configuration that adds a node) x send buffer {0,1}, explored under the -race build within the deviation bound; plus every scheduled scenario of the checks C03-C12 and C18 (their faults, cancellations, Close calls, gated handlers) re-run under the -race build with the default schedule and all free choices (thorough: 1 deviation); ThreadSanitizer observes every schedule with the scheduler's hand-offs hidden (RaceDisable) and the modelled primitives' happens-before edges announced (RaceAcquire/RaceRelease); oracle: no race report whose two stacks both contain a frame of the library or its generated code; an outcome is the instance (plus each distinct report signature)",
		Gen:         raceInstances,
		Assumptions: []string{"interleaving happens at visible operations; the race detector sees the accesses between them on every explored schedule", "TSan keeps a bounded access history per memory cell", "reports with no library frame on one side (harness bookkeeping) are not counted"},
	})
}
