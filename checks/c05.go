package checks

import (
	"context"
	"errors"
	"fmt"
	"strings"

	"github.com/relab/gorums/cmd/protoc-gen-gorums/dev"

	"verif/mc"
	"verif/world"
)

// C05: replies reach only the call that asked. Concurrent callers on shared
// nodes and overlapping configurations; every handler releases early and is
// gated, so that replies can be delivered in any order - also long after
// their call returned or was cancelled.

type xCall struct {
	kind   string
	nodes  []int // configuration (or the single target for RPC)
	thr    int   // quorum threshold
	cancel bool  // a cancel event for this call is part of the history
}

func (c xCall) String() string {
	s := fmt.Sprintf("%s%v", c.kind, c.nodes)
	if c.thr > 1 {
		s += fmt.Sprintf("thr%d", c.thr)
	}
	if c.cancel {
		s += "+cancel"
	}
	return s
}

type xParams struct {
	threads [][]xCall
}

func (p xParams) name() string {
	var ts []string
	for _, t := range p.threads {
		var cs []string
		for _, c := range t {
			cs = append(cs, c.String())
		}
		ts = append(ts, strings.Join(cs, ">"))
	}
	return "xtalk/" + strings.Join(ts, " | ")
}

// checkGenuine verifies that everything call c observed carries its own token and the right node.
func checkGenuine(w *world.W, c *world.Call, name string) {
	key := classOf(c.Kind)
	prev := 0
	for i, inv := range c.QF {
		for j, k := range inv.Keys {
			tok, node, _, _ := world.Unstamp(inv.Vals[j])
			if tok != c.Tok {
				fail("C05/foreign-reply", key, "%s: call t%d (%s) was shown reply %d under node %d: it belongs to call t%d", name, c.Tok, c.Kind, inv.Vals[j], k, tok)
				if strings.HasPrefix(c.Kind, "QuorumCall") { // the same observation is what C01 states for a quorum call's reply sets
					fail("C01/foreign-reply", key, "%s: the quorum function of call t%d (%s) was shown reply %d under node %d: it is the reply to the request of call t%d, not to this call's own request", name, c.Tok, c.Kind, inv.Vals[j], k, tok)
				}
			} else if node != int(k) {
				fail("C05/wrong-node", key, "%s: call t%d (%s) was shown the reply of node %d under node %d", name, c.Tok, c.Kind, node, k)
				if strings.HasPrefix(c.Kind, "QuorumCall") {
					fail("C01/wrong-node", key, "%s: the quorum function of call t%d (%s) was shown the reply of node %d under node %d", name, c.Tok, c.Kind, node, k)
				}
			}
		}
		if !world.IsStream(c.Kind) && len(inv.Keys) != prev+1 {
			fail("C05/at-most-once", key, "%s: call t%d: reply set went from %d to %d entries at invocation %d (a reply was delivered twice or replaced)", name, c.Tok, prev, len(inv.Keys), i)
		}
		prev = len(inv.Keys)
		if inv.AfterRet {
			fail("C05/after-return", key, "%s: call t%d observed a reply after it had returned", name, c.Tok)
		}
	}
	if !world.IsStream(c.Kind) && len(c.QF) > len(c.Targets()) {
		fail("C05/at-most-once", key, "%s: call t%d: %d replies for %d targeted nodes", name, c.Tok, len(c.QF), len(c.Targets()))
	}
	if c.Kind == "GRPCCall" && c.Returned && c.Err == nil {
		r, _ := c.Resp.(*dev.Response)
		tok, node, _, _ := world.Unstamp(r.GetResult())
		if tok != c.Tok {
			fail("C05/foreign-reply", key, "%s: RPC t%d returned %d, the reply to call t%d", name, c.Tok, r.GetResult(), tok)
		} else if node != c.Node {
			fail("C05/wrong-node", key, "%s: RPC t%d to node %d returned the reply of node %d", name, c.Tok, c.Node, node)
		}
	}
}

func xtalkScenario(p xParams) func() {
	return func() {
		w := world.New(world.Opts{N: 3, Window: 4})
		if w.Cfg == nil {
			return
		}
		w.Handle = func(h *world.HCtx) world.Reply {
			if strings.HasPrefix(h.Method, "Multicast") || strings.HasPrefix(h.Method, "Unicast") {
				return world.Reply{}
			}
			h.Release()
			g := fmt.Sprintf("n%dt%d", h.Node, h.Tok)
			w.Wait(g)
			if h.Send != nil {
				h.Send(0, 0)
				return world.Reply{}
			}
			return world.Reply{}
		}
		cfgs := map[string]*dev.Configuration{}
		mc.NoBranch(true)
		type ev struct {
			gate   string
			cancel *world.Call
		}
		var events []ev
		var threads [][]*world.Call
		var all []*world.Call
		for _, t := range p.threads {
			var cs []*world.Call
			for _, x := range t {
				x := x
				c := w.NewCall(x.kind)
				if x.kind == "GRPCCall" || strings.HasPrefix(x.kind, "Unicast") {
					c.Node = x.nodes[0]
				} else {
					k := fmt.Sprint(x.nodes)
					if cfgs[k] == nil {
						cfgs[k] = w.SubConfig(x.nodes...)
					}
					c.Cfg = cfgs[k]
				}
				thr := x.thr
				if thr == 0 {
					thr = 1
				}
				c.Verdict = func(inv *world.QFInv) {
					inv.Quorum = len(inv.Keys) >= thr
					inv.Level = len(inv.Keys)
				}
				if !world.IsOneWay(x.kind) {
					for _, n := range c.Targets() {
						events = append(events, ev{gate: fmt.Sprintf("n%dt%d", n, c.Tok)})
					}
				}
				if x.cancel {
					events = append(events, ev{cancel: c})
				}
				cs = append(cs, c)
				all = append(all, c)
			}
			threads = append(threads, cs)
		}
		mc.NoBranch(false)
		for i, cs := range threads {
			cs := cs
			mc.GoNamed(fmt.Sprintf("client%d", i+1), func() {
				for _, c := range cs {
					w.Invoke(c)
				}
			})
		}
		hist := ""
		for {
			mc.Quiesce()
			if len(events) == 0 {
				break
			}
			k := mc.Choose(len(events))
			e := events[k]
			events = append(events[:k:k], events[k+1:]...)
			if e.cancel != nil {
				hist += fmt.Sprintf("C%d ", e.cancel.Tok)
				e.cancel.Cancel(context.Canceled)
			} else {
				hist += e.gate + " "
				w.Open(e.gate)
			}
		}
		mc.Outcome("hist=%s", hist)
		name := p.name()
		for _, c := range all {
			checkGenuine(w, c, name)
			// every node handled each call at most once
			for _, n := range c.Targets() {
				if cnt := w.Entered(n, c.Tok); cnt > 1 {
					fail("C03/handler-twice", classOf(c.Kind), "%s: node %d handled call t%d %d times", name, n, c.Tok, cnt)
				}
			}
			if !c.Returned {
				fail("C05/call-stuck", classOf(c.Kind), "%s: call t%d (%s) has not returned although every node answered (hist %s)", name, c.Tok, c.Kind, hist)
			}
			if strings.HasPrefix(c.Kind, "QuorumCall") {
				// C02 for a quorum call among concurrent calls: every targeted node has answered, so it is over
				if done, _ := callDone(c); !done {
					fail("C02/return-iff", classOf(c.Kind)+" among concurrent calls", "%s: every node targeted by call t%d (%s) has answered (quorum or exhaustion) and other calls share the nodes, but the call has not completed (hist %s)", name, c.Tok, c.Kind, hist)
				}
			}
		}
	}
}

// raceCancelScenario: call A's context is cancelled by a free-running thread that the
// explorer places at every instant (in particular between the routing of A's reply and
// A's own select), then the same goroutine issues call B on the same node(s). Whatever
// per-call state A leaves behind must not leak into B.
func raceCancelScenario(a, b string, gated bool) func() {
	return func() {
		w := world.New(world.Opts{N: 2, Window: 4})
		if w.Cfg == nil {
			return
		}
		w.Handle = func(h *world.HCtx) world.Reply {
			if gated && h.Tok == 1 {
				h.Release()
				w.Wait(fmt.Sprintf("n%d", h.Node))
			}
			if h.Send != nil {
				h.Send(0, 0)
			}
			return world.Reply{}
		}
		mk := func(kind string) *world.Call {
			c := w.NewCall(kind)
			if kind == "GRPCCall" || strings.HasPrefix(kind, "Unicast") {
				c.Node = 1
			}
			c.Verdict = func(inv *world.QFInv) { inv.Level = len(inv.Keys); inv.Quorum = len(inv.Keys) >= 2 }
			return c
		}
		ca, cb := mk(a), mk(b)
		mc.GoNamed("client", func() {
			w.Invoke(ca)
			w.Invoke(cb)
		})
		mc.GoLow("cancel", func() { ca.Cancel(context.Canceled) })
		if gated {
			mc.GoNamed("gates", func() { w.Open("n1"); w.Open("n2") })
		}
		mc.Quiesce()
		for i := 0; i < 3; i++ {
			if mc.FireTimers(nil) == 0 {
				break
			}
			mc.Quiesce()
		}
		name := fmt.Sprintf("xtalk-race-cancel/%s>%s/gated=%v", a, b, gated)
		checkGenuine(w, ca, name)
		checkGenuine(w, cb, name)
		if cb.Returned && cb.Err != nil && errors.Is(cb.Err, context.Canceled) {
			fail("C05/foreign-error", classOf(b), "%s: call t%d has a live context but failed with %v (the outcome of the cancelled call t%d)", name, cb.Tok, cb.Err, ca.Tok)
		}
		if !cb.Returned {
			fail("C05/call-stuck", classOf(b), "%s: call t%d has not returned", name, cb.Tok)
		}
		mc.Outcome("a=%v b=%v", ca.Err != nil, cb.Err != nil)
	}
}

// stalledScenario: node 2's sender is stalled (its server does not read: one message in a never-releasing
// handler, one filling the window, one stuck in the write), so the request of call A to node 2 waits in the
// send buffer while A completes on node 1's answer. The same goroutine then issues call B, which needs both
// nodes; finally the server reads again. Whatever A left behind (a queued request, a router, pooled per-call
// state) must not leak into B: every reply carries its observer's own token.
func stalledScenario(a, b string, buf uint) func() {
	return func() {
		w := world.New(world.Opts{N: 2, Window: 1, SendBuffer: buf})
		if w.Cfg == nil {
			return
		}
		blockers := map[int]bool{}
		w.Handle = func(h *world.HCtx) world.Reply {
			if blockers[h.Tok] {
				w.Wait("unstall")
				return world.Reply{}
			}
			if h.Send != nil {
				h.Send(0, 0)
			}
			return world.Reply{}
		}
		for i := 0; i < 3; i++ {
			x := w.NewCall("Unicast")
			x.Node, x.NoSendWaiting = 2, true
			x.Ctx = context.Background()
			blockers[x.Tok] = true
			w.Invoke(x)
			mc.Quiesce()
		}
		mk := func(kind string, thr int) *world.Call {
			c := w.NewCall(kind)
			if kind == "GRPCCall" || strings.HasPrefix(kind, "Unicast") {
				c.Node = 2
			}
			c.Ctx = context.Background()
			c.Verdict = func(inv *world.QFInv) { inv.Level = len(inv.Keys); inv.Quorum = len(inv.Keys) >= thr }
			return c
		}
		ca, cb := mk(a, 1), mk(b, 2)
		mc.GoNamed("client", func() {
			w.Invoke(ca)
			w.Invoke(cb)
		})
		mc.Quiesce()
		w.Open("unstall")
		mc.Quiesce()
		name := fmt.Sprintf("stalled-sender/%s;%s/buf=%d", a, b, buf)
		for _, c := range []*world.Call{ca, cb} {
			checkGenuine(w, c, name)
			for _, n := range c.Targets() {
				if cnt := w.Entered(n, c.Tok); cnt > 1 {
					fail("C03/handler-twice", classOf(c.Kind), "%s: node %d handled call t%d %d times", name, n, c.Tok, cnt)
				}
			}
			// the handler sees the payload of the request that carries the call's message id
			for _, e := range w.EventsOf("enter", 0) {
				if e.Tok == c.Tok && !strings.HasPrefix(e.Payload, c.Req.Value) {
					fail("C05/foreign-request", classOf(c.Kind), "%s: node %d handled %q for call t%d", name, e.Node, e.Payload, c.Tok)
				}
			}
			if done, _ := callDone(c); !done {
				fail("C05/call-stuck", classOf(c.Kind), "%s: call t%d (%s) has not completed although every node has answered", name, c.Tok, c.Kind)
			}
		}
		mc.Outcome("a-node2=%d b-node2=%d", w.Entered(2, ca.Tok), w.Entered(2, cb.Tok))
	}
}

// errThenOkScenario: an error belongs to the call whose request caused it. In call A node 2's handler fails;
// then the same goroutine issues call B, in which every handler succeeds. B must see node 2's reply to its own
// request - no error, in particular not the one of call A.
func errThenOkScenario(a, b string) func() {
	return func() {
		w := world.New(world.Opts{N: 2, Window: 4})
		if w.Cfg == nil {
			return
		}
		failTok := -1
		w.Handle = func(h *world.HCtx) world.Reply {
			if h.Tok == failTok && h.Node == 2 {
				return world.Reply{Err: handlerError(2)}
			}
			if h.Send != nil {
				h.Send(0, 0)
			}
			return world.Reply{}
		}
		mk := func(kind string) *world.Call {
			c := w.NewCall(kind)
			if kind == "GRPCCall" {
				c.Node = 2
			}
			c.Verdict = func(inv *world.QFInv) { inv.Level = len(inv.Keys); inv.Quorum = len(inv.Keys) >= 2 }
			return c
		}
		ca, cb := mk(a), mk(b)
		failTok = ca.Tok
		w.Start(ca)
		mc.Quiesce() // the outcome of A is in
		w.Start(cb)
		mc.Quiesce()
		name := fmt.Sprintf("error-then-success/%s>%s", a, b)
		checkGenuine(w, cb, name)
		done, err := callDone(cb)
		switch {
		case world.IsStream(b):
			// a stream call with two healthy nodes stays open; it must not have been told of any failure
			if done && err != nil {
				fail("C05/foreign-error", classOf(b), "%s: every handler of call t%d succeeded, but the call ended with %v (node 2's handler failed in the EARLIER call t%d)", name, cb.Tok, err, ca.Tok)
			}
		case !done:
			fail("C05/call-stuck", classOf(b), "%s: call t%d has not returned although every node answered", name, cb.Tok)
		case err != nil:
			fail("C05/foreign-error", classOf(b), "%s: every handler of call t%d succeeded, but the call failed with %v (node 2's handler failed in the EARLIER call t%d)", name, cb.Tok, err, ca.Tok)
		}
		mc.Outcome("b-done=%v err=%v", done, err != nil)
	}
}

func xtalkInstances(tier string) []Instance {
	var out []Instance
	for _, a := range []string{"GRPCCall", "QuorumCall", "QuorumCallAsync", "Correctable", "CorrectableStream"} {
		for _, b := range []string{"GRPCCall", "QuorumCall", "QuorumCallAsync", "Correctable", "CorrectableStream"} {
			out = append(out, Instance{Name: fmt.Sprintf("error-then-success/%s>%s", a, b), Bound: 1, Root: errThenOkScenario(a, b)})
		}
	}
	for _, a := range []string{"QuorumCall", "QuorumCallAsync", "Correctable", "Multicast", "QuorumCallCombo"} {
		for _, b := range []string{"QuorumCall", "QuorumCallAsync", "Correctable", "GRPCCall"} {
			for _, buf := range []uint{1, 2} {
				bound := 1
				if thorough(tier) {
					bound = 2
				}
				out = append(out, Instance{Name: fmt.Sprintf("stalled-sender/%s;%s/buf=%d", a, b, buf), Bound: bound, Root: stalledScenario(a, b, buf)})
			}
		}
	}
	for _, a := range []string{"GRPCCall", "QuorumCall", "QuorumCallAsync", "Correctable", "CorrectableStream", "Unicast", "Multicast"} {
		for _, b := range []string{"GRPCCall", "QuorumCall"} {
			for _, gated := range []bool{false, true} {
				bound := 1
				if thorough(tier) || a == "GRPCCall" {
					bound = 2
				}
				out = append(out, Instance{Name: fmt.Sprintf("xtalk-race-cancel/%s>%s/gated=%v", a, b, gated), Bound: bound, Root: raceCancelScenario(a, b, gated)})
			}
		}
	}
	pruneFrom := 0 // pruned at every bound except where stated
	add := func(bound int, threads ...[]xCall) {
		p := xParams{threads: threads}
		out = append(out, Instance{Name: p.name(), Bound: bound, Root: xtalkScenario(p), PruneFrom: pruneFrom})
	}
	kinds := []string{"QuorumCall", "QuorumCallAsync", "Correctable", "CorrectableStream", "GRPCCall", "Multicast"}
	mk := func(kind string, nodes []int, thr int, cancel bool) xCall {
		if kind == "GRPCCall" {
			nodes = nodes[len(nodes)-1:]
		}
		if world.IsOneWay(kind) {
			cancel = false
		}
		return xCall{kind: kind, nodes: nodes, thr: thr, cancel: cancel}
	}
	b1 := 1
	if thorough(tier) {
		b1 = 2
	}
	for _, a := range kinds {
		for _, b := range kinds {
			for _, overlap := range []bool{false, true} {
				for _, cancel := range []bool{false, true} {
					nb := []int{1, 2}
					if overlap {
						nb = []int{2, 3}
					}
					if cancel && (world.IsOneWay(a)) {
						continue
					}
					pruneFrom = 0
					if !overlap && !cancel {
						pruneFrom = 2 // every single deviation, unpruned (exact also where an access is unsynchronised)
					}
					add(b1, []xCall{mk(a, []int{1, 2}, 1, cancel)}, []xCall{mk(b, nb, 1, false)})
					pruneFrom = 0
				}
			}
		}
	}
	// concurrent quorum calls that each need every node of their (overlapping) configuration, and an RPC to the shared node
	for _, a := range []string{"QuorumCall", "QuorumCallAsync"} {
		for _, b := range []string{"QuorumCall", "QuorumCallAsync", "GRPCCall"} {
			add(1, []xCall{mk(a, []int{1, 2}, 2, false)}, []xCall{mk(b, []int{2, 3}, 2, false)})
		}
	}
	// back-to-back calls of one thread reuse the same nodes while a concurrent thread is active;
	// threshold 1 of 2 leaves one reply of each call to arrive after the call returned
	for _, a := range []string{"QuorumCall", "QuorumCallAsync", "GRPCCall"} {
		for _, thr := range []int{1, 2} {
			b := 0
			if thorough(tier) {
				b = 1
			}
			add(b, []xCall{mk(a, []int{1, 2}, thr, false), mk("QuorumCall", []int{1, 2}, thr, false)}, []xCall{mk("QuorumCall", []int{1, 2}, 1, false)})
		}
	}
	// a node's error must reach a call at most once as well: the fault family of C07 in which the request is
	// still queued when the stream breaks and the receiver is held up by a slow streaming consumer
	// ... and the instances in which a connection fault strikes one node of two at any instant of the call
	for _, in := range faultInstances(tier) {
		if strings.Contains(in.Name, "-queued") ||
			(strings.Contains(in.Name, "/n=2/failing=[2]/") && !strings.Contains(in.Name, "/err-") && !strings.Contains(in.Name, "/down/") && strings.Contains(in.Name, "thr=healthy+1")) {
			out = append(out, in)
		}
	}
	if thorough(tier) {
		add(1, []xCall{mk("QuorumCall", []int{1, 2}, 1, true)}, []xCall{mk("QuorumCall", []int{2, 3}, 2, true)}, []xCall{mk("GRPCCall", []int{2}, 1, false)})
	}
	return out
}

func init() {
	register(&Check{ID: "C05",
		Rule:        "two (three in thorough) concurrent client threads on one manager with 3 nodes: every ordered pair over {quorum call, async, correctable, correctable stream, RPC, multicast} on equal or overlapping configurations ({1,2} vs {1,2} / {2,3}), with and without a cancel event for the first call, plus back-to-back calls of one thread concurrent with another thread (thresholds 1 and 2); every handler releases early and is gated individually, and the script opens the gates and fires the cancel in every order at quiescent points (so replies arrive after their call returned or was cancelled); all schedules within the deviation bound; plus the fault families of C07 in which a connection fault strikes one node of two (also while the request is still queued): a node's error is delivered at most once as well; plus sequences 'a call in which one node's handler fails, then a call in which every handler succeeds' (5 x 5 call kinds): the second call sees no error; plus a stalled-sender family (call A completes on node 1 while its request to node 2 waits in the send buffer behind a stalled sender, the same goroutine then issues call B needing both nodes, then the server reads again; send buffer {1,2}); oracle: every reply shown to a quorum function or returned carries the observer's own call token and the node id it is filed under, at most one reply per node and call, nothing observed after return, one message id per call; an outcome is (instance, event order)",
		Gen:         xtalkInstances,
		Assumptions: []string{"puppet servers stamp every reply with (call token, node, sequence); transport is the fakegrpc model"},
	})
}
