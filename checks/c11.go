package checks

import (
	"context"
	"errors"
	"fmt"
	"strings"

	"github.com/relab/gorums"

	"verif/mc"
	"verif/world"
)

// C11: correctable calls. History enumeration (replies, errors, stream ends,
// cancel in every order) with observers after every event, compared with a
// reference model of the published (value, level, done) state.

type corrParams struct {
	kind   string
	n      int
	k      int    // stream replies per node (non-stream: 1)
	fails  []bool // node ends with a handler error (non-stream: instead of the reply; stream: after its replies)
	levels []int  // level reported by the i-th quorum-function invocation (last entry repeats)
	doneAt int    // invocation (1-based) at which the quorum function reports done; 0 = never
	cancel bool
	skip   []int // per-node skips
	tail   bool  // streams: the handler returns (or fails) right after its last reply instead of waiting for the script
	resets int   // the stream of the last node is reset this many times during the call (events of the script)
	// lateDone: the observers ask for Done() only once the call has completed (a program that first watches
	// levels and looks at Done afterwards); before that, Done is not touched at all
	lateDone bool
}

func (p corrParams) name() string {
	f := ""
	for _, x := range p.fails {
		if x {
			f += "E"
		} else {
			f += "R"
		}
	}
	if p.tail {
		f += "/ends-with-last-reply"
	}
	if p.resets > 0 {
		f += fmt.Sprintf("/resets-of-last-node=%d", p.resets)
	}
	if p.lateDone {
		f += "/done-first-asked-after-completion"
	}
	return fmt.Sprintf("corr/%s/n=%d/k=%d/%s/levels=%v/doneAt=%d/cancel=%v/skip=%v", p.kind, p.n, p.k, f, p.levels, p.doneAt, p.cancel, p.skip)
}

func closedNow(ch <-chan struct{}) bool {
	return mc.Select(true, mc.RecvCase(ch)) == 0
}

func corrHistory(p corrParams) func() {
	return func() {
		stream := world.IsStream(p.kind)
		w := world.New(world.Opts{N: p.n, Window: 4})
		if w.Cfg == nil {
			return
		}
		w.Handle = func(h *world.HCtx) world.Reply {
			fails := p.fails[h.Node-1]
			if stream {
				for i := 0; i < p.k; i++ {
					w.Wait(fmt.Sprintf("n%d#%d", h.Node, i))
					if err := h.Send(i, i%10); err != nil {
						return world.Reply{Err: err}
					}
				}
				if !p.tail || p.k == 0 {
					w.Wait(fmt.Sprintf("n%d!", h.Node))
				}
				if fails {
					return world.Reply{Err: handlerError(h.Node)}
				}
				return world.Reply{}
			}
			if fails {
				w.Wait(fmt.Sprintf("n%d!", h.Node))
				return world.Reply{Err: handlerError(h.Node)}
			}
			w.Wait(fmt.Sprintf("n%d#0", h.Node))
			return world.Reply{}
		}
		c := w.NewCall(p.kind)
		c.Skip = p.skip
		c.Verdict = func(inv *world.QFInv) {
			i := len(c.QF)
			lvl := p.levels[len(p.levels)-1]
			if i < len(p.levels) {
				lvl = p.levels[i]
			}
			inv.Level = lvl
			inv.Quorum = p.doneAt != 0 && i+1 == p.doneAt
		}
		key := classOf(p.kind)
		if world.IsCustom(p.kind) {
			key += "/custom"
		}
		w.Invoke(c) // returns at once with the correctable
		corr := c.Corr
		type watcher struct {
			level int
			ch    <-chan struct{}
			when  string
			late  bool // registered after the model says done
		}
		var watchers []watcher
		// reference model
		mLevel, mDone := gorums.LevelNotSet, false
		var mErr error
		var mVal any
		invs, errs, answered := 0, 0, 0
		targeted := len(c.Targets())
		addWatchers := func(when string) {
			for l := 0; l <= 3; l++ {
				watchers = append(watchers, watcher{l, corr.Watch(l), when, mDone})
			}
		}
		prevLevel := gorums.LevelNotSet
		var frozen *[3]any
		observe := func(where string) {
			func() {
				defer func() {
					if r := recover(); r != nil {
						fail("C11/typed-get-panics", key, "%s: %s: typed Get panics: %v", p.name(), where, r)
					}
				}()
				world.CorrGet(corr)
			}()
			reply, level, err := world.CorrRawGet(corr)
			if level < prevLevel {
				fail("C11/level-decreased", key, "%s: %s: level %d after %d", p.name(), where, level, prevLevel)
			}
			prevLevel = level
			if level != mLevel {
				k := key
				if invs == 0 && errs == 0 && !mDone {
					k += " initial"
				}
				fail("C11/level", k, "%s: %s: Get shows level %d, the reference model %d", p.name(), where, level, mLevel)
			}
			switch {
			case mErr != nil:
				if !errors.Is(err, mErr) {
					fail("C11/error", key, "%s: %s: Get error %v, expected %v", p.name(), where, err, mErr)
				}
			case err != nil:
				fail("C11/error", key, "%s: %s: unexpected error %v", p.name(), where, err)
			case mLevel == gorums.LevelNotSet:
				if reply != nil {
					fail("C11/value-before-level", key, "%s: %s: Get shows a reply before any level was published", p.name(), where)
				}
			case reply != mVal:
				fail("C11/value", key, "%s: %s: Get shows %v (%T), the quorum function returned %v (%T) for the published level", p.name(), where, reply, reply, mVal, mVal)
			}
			if p.lateDone && !mDone {
				// Done() is not asked for yet
			} else if closedNow(corr.Done()) != mDone {
				fail("C11/done", key, "%s: %s: Done released=%v, reference model done=%v", p.name(), where, !mDone, mDone)
			}
			for _, wt := range watchers {
				want := wt.level <= mLevel || mDone
				if got := closedNow(wt.ch); got != want {
					rule := "C11/watch"
					if wt.late {
						rule = "C11/watch-after-done"
					}
					fail(rule, key, "%s: %s: Watch(%d) registered %s released=%v, reference level %d done=%v", p.name(), where, wt.level, wt.when, got, mLevel, mDone)
				}
			}
			if mDone {
				cur := [3]any{reply, level, fmt.Sprint(err)}
				if frozen == nil {
					frozen = &cur
				} else if *frozen != cur {
					fail("C11/changed-after-done", key, "%s: %s: Get changed after completion: %v then %v", p.name(), where, *frozen, cur)
				}
			}
		}
		if targeted == 0 {
			// every node was skipped: all (zero) targeted nodes have answered
			mDone, mErr = true, gorums.Incomplete
		}
		addWatchers("before the first event")
		// events
		type ev struct {
			node int // 0 = cancel
			idx  int // reply index; -1 = error / stream end
		}
		var events []ev
		for _, id := range c.Targets() {
			switch {
			case stream && p.k > 0:
				events = append(events, ev{id, 0})
			case stream:
				events = append(events, ev{id, -1})
			case p.fails[id-1]:
				events = append(events, ev{id, -1})
			default:
				events = append(events, ev{id, 0})
			}
		}
		if p.cancel {
			events = append(events, ev{0, 0})
		}
		for i := 0; i < p.resets; i++ {
			events = append(events, ev{p.n, -2}) // the connection to the last node breaks (and is re-created)
		}
		failed := map[int]bool{} // nodes whose connection broke during the call: they cannot answer it any more
		repliedOnce := map[int]bool{}
		hist := ""
		step := 0
		for {
			mc.Quiesce()
			observe(fmt.Sprintf("after %q", hist))
			addWatchers(fmt.Sprintf("after %q", hist))
			observe(fmt.Sprintf("after %q (new watchers)", hist))
			step++
			if len(events) == 0 {
				break
			}
			k := mc.Choose(len(events))
			e := events[k]
			events = append(events[:k:k], events[k+1:]...)
			switch {
			case e.node == 0:
				hist += "C"
				c.Cancel(context.Canceled)
				if !mDone {
					mDone, mErr = true, context.Canceled
				}
				continue
			case e.idx == -2:
				hist += fmt.Sprintf("%dx", e.node)
				w.FW.Reset(world.Addr(e.node))
				if !failed[e.node] && (stream || !repliedOnce[e.node]) {
					// (a node that has answered a non-stream call is done with it: its router is gone)
					failed[e.node] = true
					// whatever the node would still have sent for this call is lost with the stream
					var rest []ev
					for _, x := range events {
						if x.node != e.node || x.idx == -2 {
							rest = append(rest, x)
						}
					}
					events = rest
					if !mDone {
						errs++
						answered++
					}
				}
			case e.idx == -1:
				hist += fmt.Sprintf("%d!", e.node)
				w.Open(fmt.Sprintf("n%d!", e.node))
				if p.fails[e.node-1] && !mDone {
					errs++
					answered++
				}
			default:
				hist += fmt.Sprintf("%d", e.node)
				repliedOnce[e.node] = true
				w.Open(fmt.Sprintf("n%d#%d", e.node, e.idx))
				streamEnds := false
				if stream {
					switch {
					case e.idx+1 < p.k:
						events = append(events, ev{e.node, e.idx + 1})
					case p.tail:
						streamEnds = true // the handler returns without waiting: the reply is followed by the end / error
					default:
						events = append(events, ev{e.node, -1})
					}
				}
				if !mDone {
					if e.idx == 0 {
						answered++
					}
					invs++
					lvl := p.levels[len(p.levels)-1]
					if invs <= len(p.levels) {
						lvl = p.levels[invs-1]
					}
					done := p.doneAt != 0 && invs == p.doneAt
					if done || lvl > mLevel {
						mLevel = lvl
						mVal = nil // filled from the QF log below
					}
					if done {
						mDone = true
					}
				}
				if streamEnds && p.fails[e.node-1] && !mDone {
					errs++
					answered++
				}
			}
			if !mDone {
				if (stream && errs == targeted) || (!stream && answered == targeted) {
					mDone, mErr = true, gorums.Incomplete
				}
			}
			// let the library process the event, then read the pointer the quorum function handed back
			mc.Quiesce()
			best := gorums.LevelNotSet
			for i, inv := range c.QF {
				if i >= invs {
					break
				}
				if inv.Level > best || inv.Quorum {
					best = inv.Level
					mVal = inv.Ret
				}
			}
		}
		mc.Outcome("hist=%s level=%d done=%v", hist, mLevel, mDone)
		if len(c.QF) > invs {
			fail("C11/qf-after-done", key, "%s: quorum function invoked %d times, the reference model expects %d (no invocation after completion; hist %s)", p.name(), len(c.QF), invs, hist)
		}
		if mDone && len(c.QF) < invs {
			fail("C11/qf-missed", key, "%s: quorum function invoked %d times, %d successful replies arrived before completion (hist %s)", p.name(), len(c.QF), invs, hist)
		}
		if c.QFMax > 1 {
			fail("C11/qf-overlap", key, "%s: quorum function invoked concurrently", p.name())
		}
	}
}

// corrBusyResetScenario: a server-stream call on n nodes; the quorum function is blocked on the first reply
// while the nodes' further replies fill the reply channel; then the stream of every node is reset, and only
// then does the quorum function continue. Every node has failed: the call must complete (Incomplete), Done and
// every watcher must be released.
func corrBusyResetScenario(kind string, n int) func() {
	return func() {
		w := world.New(world.Opts{N: n, Window: 4})
		if w.Cfg == nil {
			return
		}
		w.Handle = func(h *world.HCtx) world.Reply {
			h.Release()
			for i := 0; i < 3; i++ {
				if h.Send(i, 0) != nil {
					break
				}
			}
			world.Block()
			return world.Reply{}
		}
		c := w.NewCall(kind)
		c.Ctx = context.Background()
		first := true
		c.Verdict = func(inv *world.QFInv) {
			if first {
				first = false
				w.Wait("qf")
			}
			inv.Level = len(c.QF) + 1
		}
		w.Invoke(c)
		high := c.Corr.Watch(99)
		mc.Quiesce() // the quorum function is busy, the reply channel full
		for id := 1; id <= n; id++ {
			w.FW.Reset(world.Addr(id))
		}
		mc.Quiesce()
		w.Open("qf")
		mc.Quiesce()
		for i := 0; i < 4 && mc.FireTimers(nil) > 0; i++ {
			mc.Quiesce()
		}
		name := fmt.Sprintf("corr/%s/n=%d/streams-reset-while-the-quorum-function-is-busy", kind, n)
		key := classOf(kind) + "/reset-while-busy"
		_, _, err := world.CorrRawGet(c.Corr)
		if !closedNow(c.Corr.Done()) {
			fail("C11/done", key, "%s: the connection of every node has broken (each node has failed), the call has not completed (error so far: %v)", name, err)
		} else if !errors.Is(err, gorums.Incomplete) {
			fail("C11/error", key, "%s: completed with %v, expected Incomplete", name, err)
		}
		if closedNow(c.Corr.Done()) && !closedNow(high) {
			fail("C11/watch", key, "%s: the call is done but Watch(99) was not released", name)
		}
		mc.Outcome("done=%v", closedNow(c.Corr.Done()))
	}
}

func corrInstances(tier string) []Instance {
	var out []Instance
	for _, kind := range []string{"CorrectableStream", "CorrectableStreamCustomReturnType"} {
		for n := 1; n <= 2; n++ {
			out = append(out, Instance{Name: fmt.Sprintf("corr/%s/n=%d/streams-reset-while-the-quorum-function-is-busy", kind, n), Bound: 1, Root: corrBusyResetScenario(kind, n)})
		}
	}
	tables := []struct {
		levels []int
		dones  []int
	}{
		{[]int{1, 2, 3}, []int{0, 1, 2, 3}},
		{[]int{1, 1, 2}, []int{0, 2, 3}},
		{[]int{0, 0, 1}, []int{0, 1, 3}},
		{[]int{2, 1, 3}, []int{0, 1, 3}}, // non-monotone before done (done only where the level is a new maximum)
		{[]int{3, 3, 3}, []int{0, 1}},
	}
	kinds := []string{"Correctable", "CorrectableCustomReturnType", "CorrectableStream", "CorrectableStreamCustomReturnType"}
	if thorough(tier) {
		kinds = append(kinds, "CorrectablePerNodeArg", "CorrectableCombo", "CorrectableStreamPerNodeArg", "CorrectableStreamCombo")
	}
	for _, kind := range kinds {
		stream := world.IsStream(kind)
		for n := 1; n <= 2; n++ {
			ks := []int{1}
			if stream {
				ks = []int{0, 1, 2}
			}
			for _, k := range ks {
				for fm := 0; fm < 1<<n; fm++ {
					fails := make([]bool, n)
					for i := range fails {
						fails[i] = fm&(1<<i) != 0
					}
					for _, tb := range tables {
						for _, d := range tb.dones {
							for _, cancel := range []bool{false, true} {
								p := corrParams{kind: kind, n: n, k: k, fails: fails, levels: tb.levels, doneAt: d, cancel: cancel}
								bound := 1
								if n == 1 && (thorough(tier) || !strings.Contains(kind, "Custom")) {
									bound = 2
								}
								out = append(out, Instance{Name: p.name(), Bound: bound, Root: corrHistory(p)})
								if stream && k > 0 && !cancel && (thorough(tier) || tb.levels[1] == 2) {
									p.tail = true
									out = append(out, Instance{Name: p.name(), Bound: bound, Root: corrHistory(p)})
								}
							}
						}
					}
				}
			}
		}
	}
	// Done() first asked for after the call has completed, for every way of completing
	for _, kind := range []string{"Correctable", "CorrectableCustomReturnType", "CorrectableStream", "CorrectablePerNodeArg"} {
		for _, d := range []int{0, 1, 2} {
			for _, cancel := range []bool{false, true} {
				for _, fails := range [][]bool{{false, false}, {false, true}, {true, true}} {
					p := corrParams{kind: kind, n: 2, k: 1, fails: fails, levels: []int{1, 2, 3}, doneAt: d, cancel: cancel, lateDone: true}
					out = append(out, Instance{Name: p.name(), Bound: 1, Root: corrHistory(p)})
				}
			}
		}
	}
	// connection faults during the call: the last node's stream is reset twice (re-created each time)
	for _, kind := range []string{"Correctable", "CorrectableStream"} {
		for _, k := range []int{1, 2} {
			if k == 2 && kind == "Correctable" {
				continue
			}
			for _, d := range []int{0, 2} {
				p := corrParams{kind: kind, n: 2, k: k, fails: []bool{false, false}, levels: []int{1, 2, 3}, doneAt: d, resets: 2}
				out = append(out, Instance{Name: p.name(), Bound: 1, Root: corrHistory(p)})
			}
		}
	}
	for _, kind := range []string{"CorrectablePerNodeArg", "CorrectableCombo", "CorrectableStreamPerNodeArg", "CorrectableStreamCombo"} {
		{
			// every skip subset, including all nodes
			for _, skip := range [][]int{{1}, {2}, {1, 2}} {
				p := corrParams{kind: kind, n: 2, k: 1, fails: []bool{false, false}, levels: []int{1, 2, 3}, doneAt: 0, skip: skip}
				out = append(out, Instance{Name: p.name(), Bound: 1, Root: corrHistory(p)})
			}
		}
	}
	return out
}

func init() {
	register(&Check{ID: "C11",
		Rule: "every history of one correctable call: {Correctable, CorrectableStream} x {plain, custom return type (+ per-node, combo in thorough)} x n in 1..2 x stream replies per node in 0..2 x failing subsets x 5 level tables (monotone, plateau, zero, non-monotone, constant) x done at {never, 1st, 2nd, 3rd invocation} x cancel x (streams) handler ends / fails on the script's signal or right after its last reply; the script delivers replies / errors / stream ends / cancel one at a time in every order, keeps delivering after completion, and after every event observes typed Get, raw Get, Done, 4 earlier and 4 newly registered Watch levels; reference model of (published value by pointer, level, done, error); an outcome is (history, final level, done)",
		Gen:  corrInstances,
		Assumptions: []string{
			"level tables that report done with a level below an earlier one are not generated (the statement does not define the published level there)",
			"transport is the fakegrpc model; interleavings up to the reported deviation bound inside each event",
		},
	})
}
