package checks

import (
	"context"
	"fmt"
	"strings"

	"github.com/relab/gorums/cmd/protoc-gen-gorums/dev"

	"verif/mc"
	"verif/world"
)

// C10: nodes that come back are used again; each connection carries metadata.
// Fault-sequence enumeration: every script over {stop, start, call} up to a
// length, from both initial states, with and without firing the back-off timers
// between events.

type rsParams struct {
	script   string // letters: s = stop, u = start (up), c = call
	kind     string
	initUp   bool
	fire     bool // fire armed timers to the horizon after every stop/start event
	choose   bool // after every event the explorer chooses: fire nothing, only the shortest armed timer, or all to the horizon
	blocking bool // blocking dial
	n        int
	nsw      bool // one-way calls with the no-send-waiting option
}

func (p rsParams) name() string {
	f := fmt.Sprint(p.fire)
	if p.choose {
		f = "any-subset"
	}
	k := p.kind
	if p.nsw {
		k += "+nsw"
	}
	return fmt.Sprintf("restart/%s/%s/init-up=%v/fire-timers=%s/blocking-dial=%v/n=%d", p.script, k, p.initUp, f, p.blocking, p.n)
}

func rsScenario(p rsParams) func() {
	return func() {
		o := world.Opts{N: p.n, Metadata: true, PerNodeMD: true, ConnectCB: true, BlockingDial: p.blocking, Window: 4}
		o.Down = make([]bool, p.n)
		o.Down[0] = !p.initUp
		w := world.New(o)
		if w.Cfg == nil {
			return
		}
		up := p.initUp
		inc := 0
		name := p.name()
		fireAll := func() {
			for i := 0; i < 5; i++ {
				if mc.FireTimers(nil) == 0 {
					break
				}
				mc.Quiesce()
			}
		}
		// time advances only as far as the explorer decides: nothing, the shortest armed timer, or everything
		hist := ""
		advance := func() {
			if !p.choose {
				if p.fire {
					fireAll()
				}
				return
			}
			switch mc.Choose(3) {
			case 1:
				var min *mc.Timer
				for _, t := range mc.ArmedTimers() {
					if min == nil || t.Dur < min.Dur {
						min = t
					}
				}
				if min != nil {
					mc.FireTimers(func(t *mc.Timer) bool { return t == min })
					mc.Quiesce()
				}
				hist += "1"
			case 2:
				fireAll()
				hist += "*"
			default:
				hist += "0"
			}
		}
		var pending []*world.Call // calls that had not returned when the script moved on
		for pos, ev := range p.script {
			switch ev {
			case 's':
				if !up {
					continue
				}
				w.FW.Crash(world.Addr(1))
				up = false
				mc.Quiesce()
				advance()
			case 'u':
				if up {
					continue
				}
				w.FW.Restart(world.Addr(1))
				up = true
				inc++
				mc.Quiesce()
				advance()
			case 'c':
				c := w.NewCall(p.kind)
				if p.kind == "GRPCCall" || p.kind == "Unicast" {
					c.Node = 1
				}
				c.Verdict = func(inv *world.QFInv) { inv.Level = len(inv.Keys); inv.Quorum = len(inv.Keys) >= p.n }
				c.NoSendWaiting = p.nsw
				w.Start(c)
				mc.Quiesce() // no timer is fired here: a reply must not have to wait for one
				key := fmt.Sprintf("%s/fire=%v/blocking=%v", classOf(p.kind), p.fire, p.blocking)
				at := fmt.Sprintf("event %d of %q", pos+1, p.script)
				if up && w.Entered(1, c.Tok) == 0 {
					// (a) is an eventual property: the sender may still sleep in the back-off of an
					// earlier failed attempt. Fire the armed timers and look again.
					fireAll()
				}
				if up {
					// which incarnation handled it?
					var handledBy []int
					handlerDone := false
					for _, e := range w.Events {
						if e.Node == 1 && e.Tok == c.Tok && e.Kind == "enter" {
							handledBy = append(handledBy, e.Inc)
						}
						if e.Node == 1 && e.Tok == c.Tok && e.Kind == "exit" && e.Inc == w.FW.Eps[world.Addr(1)].Inc {
							handlerDone = true
						}
					}
					cur := w.FW.Eps[world.Addr(1)].Inc
					switch {
					case len(handledBy) == 0:
						fail("C10/not-contacted", key, "%s: %s: node 1 is listening again (incarnation %d) but the call was not delivered to it (returned=%v err=%v, armed timers=%d)", name, at, cur, c.Returned, c.Err, mc.PendingTimers())
					case handledBy[len(handledBy)-1] != cur:
						fail("C10/stale-incarnation", key, "%s: %s: the call was handled by incarnation %v, the node is at incarnation %d", name, at, handledBy, cur)
					case !world.IsOneWay(p.kind) && handlerDone && !c.Returned:
						fail("C10/reply-waits-for-backoff", key, "%s: %s: the restarted server handled the request and sent its reply, but the call has not received it; %d back-off timer(s) are armed and none has fired", name, at, mc.PendingTimers())
					case !world.IsOneWay(p.kind) && c.Returned && c.Err != nil:
						fail("C10/call-failed", key, "%s: %s: the node handled the request but the call failed: %v", name, at, c.Err)
					case c.Returned && c.Kind == "GRPCCall":
						r, _ := c.Resp.(*dev.Response)
						if tok, node, _, _ := world.Unstamp(r.GetResult()); tok != c.Tok || node != 1 {
							fail("C05/foreign-reply", key, "%s: %s: RPC returned %d", name, at, r.GetResult())
						}
					}
				}
				if !c.Returned {
					pending = append(pending, c)
				}
				if p.choose && pos < len(p.script)-1 {
					advance()
				}
			}
		}
		// eventual part: with all timers fired every call has returned
		fireAll()
		for _, c := range pending {
			if !c.Returned {
				fail("C10/call-never-returns", classOf(p.kind), "%s: call t%d has not returned after all back-off timers fired", name, c.Tok)
			}
		}
		// (c) every accepted stream carried the metadata and triggered the connect callback once
		accepts := 0
		for _, e := range w.Events {
			if e.Kind != "accept" {
				continue
			}
			accepts++
			if !strings.Contains(e.Payload, "general=g") {
				fail("C10/metadata", "general", "%s: stream %d accepted by node %d without the manager's general metadata (saw %q)", name, e.Conn, e.Node, e.Payload)
			}
			if !strings.Contains(e.Payload, fmt.Sprintf("node=n%d", e.Node)) {
				fail("C10/metadata", "per-node", "%s: stream %d accepted by node %d without its per-node metadata (saw %q)", name, e.Conn, e.Node, e.Payload)
			}
		}
		for node := 1; node <= p.n; node++ {
			if w.Callbacks[node] != w.Accepted[node] {
				fail("C10/connect-callback", "count", "%s: node %d accepted %d connections but the connect callback ran %d times", name, node, w.Accepted[node], w.Callbacks[node])
			}
		}
		// per connection the callback runs once: events "callback" per conn
		cb := map[int]int{}
		for _, e := range w.Events {
			if e.Kind == "callback" {
				cb[e.Conn]++
			}
		}
		for conn, k := range cb {
			if k != 1 {
				fail("C10/connect-callback", "per-connection", "%s: connect callback ran %d times for connection %d", name, k, conn)
			}
		}
		mc.Outcome("accepts=%d inc=%d timers=%s", accepts, inc, hist)
	}
}

// rsAdversaryScenario: calls issued during an outage, with the node coming back at an instant chosen by the
// explorer (adversary thread, in a script-chosen round of {activity, timers fire}) - in particular between
// two steps of a reconnect attempt. Once the node is up and every timer has fired, a probe call must be
// delivered to the current incarnation and answered.
func rsAdversaryScenario(kind string, calls int, buf uint, timerThread bool) func() {
	return func() {
		w := world.New(world.Opts{N: 1, Window: 4, SendBuffer: buf})
		if w.Cfg == nil {
			return
		}
		mk := func() *world.Call {
			c := w.NewCall(kind)
			if kind == "GRPCCall" || kind == "Unicast" {
				c.Node = 1
			}
			if !world.IsStream(kind) {
				c.Ctx = context.Background()
			}
			c.Verdict = func(inv *world.QFInv) { inv.Level = len(inv.Keys); inv.Quorum = len(inv.Keys) >= 1 }
			return c
		}
		w.Invoke(mk())
		mc.Quiesce()
		w.FW.Crash(world.Addr(1))
		mc.Quiesce()
		var during []*world.Call
		for i := 0; i < calls; i++ {
			during = append(during, mk())
		}
		mc.GoNamed("client", func() {
			for _, c := range during {
				w.Invoke(c)
			}
		})
		back := mc.Choose(3)
		for r := 0; r < 12; r++ {
			if r == back {
				mc.GoLow("restart", func() { w.FW.Restart(world.Addr(1)) })
				if timerThread {
					// the armed back-off timers expire at an instant of the explorer's choosing as well
					mc.GoLow("timers", func() { mc.FireTimers(nil) })
				}
			}
			mc.Quiesce()
			if mc.FireTimers(nil) == 0 && r > back {
				break
			}
		}
		mc.Quiesce()
		name := fmt.Sprintf("restart-adversary/%s/calls=%d/buf=%d/timer-thread=%v", kind, calls, buf, timerThread)
		key := classOf(kind)
		probe := w.NewCall("GRPCCall")
		probe.Node = 1
		w.Start(probe)
		mc.Quiesce()
		for i := 0; i < 4 && !probe.Returned; i++ {
			if mc.FireTimers(nil) == 0 {
				break
			}
			mc.Quiesce()
		}
		switch {
		case !probe.Returned:
			fail("C10/call-never-returns", key+" lock-waiters="+world.LockWaiters(), "%s: the node is up again and every back-off timer has fired, but a new call to it does not return (blocked library threads: %v)", name, world.LibThreads())
			mc.Outcome("back=%d probe-stuck", back)
		case probe.Err != nil:
			fail("C10/call-failed", key, "%s: the node is up again and every back-off timer has fired, but a new call fails: %v", name, probe.Err)
			mc.Outcome("back=%d probe-failed", back)
		default:
			if ev := w.EventsOf("enter", 1); len(ev) == 0 || ev[len(ev)-1].Tok != probe.Tok || ev[len(ev)-1].Inc != 1 {
				fail("C10/not-contacted", key, "%s: the probe was not handled by the restarted incarnation (%v)", name, ev)
			}
			mc.Outcome("back=%d probe-ok", back)
		}
		for _, c := range during {
			if world.IsStream(kind) {
				c.Cancel(context.Canceled) // a stream call on a context that never ends is ended here
				continue
			}
			if !c.Returned {
				fail("C10/call-never-returns", key, "%s: call t%d issued during the outage has not returned although the node is up and every timer has fired", name, c.Tok)
			}
		}
	}
}

// rsDuringCallScenario: the node crashes and listens again (adversary thread) while a call is being issued.
// The call may legitimately fail - its request may have been lost with the old connection. But if the
// restarted server has handled the request and sent its reply, the call must receive that reply.
func rsDuringCallScenario(kind string, buf uint) func() {
	return func() {
		w := world.New(world.Opts{N: 1, Window: 4, SendBuffer: buf})
		if w.Cfg == nil {
			return
		}
		mk := func() *world.Call {
			c := w.NewCall(kind)
			if kind == "GRPCCall" {
				c.Node = 1
			}
			c.Ctx = context.Background()
			c.Verdict = func(inv *world.QFInv) { inv.Level = len(inv.Keys); inv.Quorum = len(inv.Keys) >= 1 }
			return c
		}
		w.Invoke(mk())
		mc.Quiesce()
		b := mk()
		w.Start(b)
		mc.GoLow("restart", func() { w.FW.Crash(world.Addr(1)); w.FW.Restart(world.Addr(1)) })
		mc.Quiesce()
		for i := 0; i < 4 && mc.FireTimers(nil) > 0; i++ {
			mc.Quiesce()
		}
		name := fmt.Sprintf("restart-during-call/%s/buf=%d", kind, buf)
		handled := false
		for _, e := range w.EventsOf("exit", 1) {
			if e.Tok == b.Tok && e.Inc == 1 {
				handled = true
			}
		}
		done, err := callDone(b)
		switch {
		case handled && !done:
			fail("C10/call-never-returns", classOf(kind), "%s: the restarted server has handled the call's request and replied, the call has not completed", name)
		case handled && err != nil:
			fail("C10/reply-lost", classOf(kind), "%s: the restarted server has handled the call's request and sent its reply, but the call was failed with %v", name, err)
		}
		mc.Outcome("handled-by-new=%v err=%v", handled, err != nil)
	}
}

// rsCancelledSendScenario: history before the outage - a call's context ends while its write is blocked on a
// full transport window (the server has stopped reading: a handler never releases), so the library cancels
// the node's stream itself. Then the node crashes and listens again, every back-off timer expires, and a
// call is issued: it must be delivered to the new incarnation, and once that has replied the call has the reply.
func rsCancelledSendScenario(kind, victim string, restart bool) func() {
	return func() {
		w := world.New(world.Opts{N: 1, Window: 1})
		if w.Cfg == nil {
			return
		}
		blockers := map[int]bool{}
		w.Handle = func(h *world.HCtx) world.Reply {
			if blockers[h.Tok] {
				world.Block()
			}
			return world.Reply{}
		}
		mk := func(kind string) *world.Call {
			c := w.NewCall(kind)
			if kind == "GRPCCall" || kind == "Unicast" {
				c.Node = 1
			}
			c.Verdict = func(inv *world.QFInv) { inv.Level = len(inv.Keys); inv.Quorum = len(inv.Keys) >= 1 }
			return c
		}
		for i := 0; i < 2; i++ { // one message in the never-releasing handler, one filling the window
			x := mk("Unicast")
			x.NoSendWaiting = true
			x.Ctx = context.Background()
			blockers[x.Tok] = true
			w.Start(x)
			mc.Quiesce()
		}
		v := mk(victim)
		blockers[v.Tok] = true
		w.Start(v)
		mc.Quiesce() // the victim's write is blocked
		v.Cancel(context.Canceled)
		mc.Quiesce()
		settle := func() {
			for i := 0; i < 5 && mc.FireTimers(nil) > 0; i++ {
				mc.Quiesce()
			}
		}
		settle()
		if restart {
			w.FW.Crash(world.Addr(1))
			mc.Quiesce()
			w.FW.Restart(world.Addr(1))
			mc.Quiesce()
			settle()
		}
		c := mk(kind)
		c.Ctx = context.Background()
		w.Start(c)
		mc.Quiesce()
		name := fmt.Sprintf("restart/after-a-send-cancelled-by-its-context/%s-then-%s/restart=%v", victim, kind, restart)
		key := classOf(kind) + "/after-cancelled-send"
		if w.Entered(1, c.Tok) == 0 {
			settle() // (a) is eventual
		}
		handled := false
		for _, e := range w.EventsOf("exit", 1) {
			if e.Tok == c.Tok && e.Inc == w.FW.Eps[world.Addr(1)].Inc {
				handled = true
			}
		}
		done, err := callDone(c)
		switch {
		case w.Entered(1, c.Tok) == 0:
			fail("C10/not-contacted", key, "%s: node 1 listens (incarnation %d) but the call was not delivered to it (returned=%v err=%v)", name, w.FW.Eps[world.Addr(1)].Inc, c.Returned, c.Err)
		case handled && !done:
			fail("C10/reply-waits-for-backoff", key, "%s: the server has handled the request and sent its reply, but the call has not received it (%d timers armed)", name, mc.PendingTimers())
		case handled && err != nil && !world.IsOneWay(kind):
			fail("C10/call-failed", key, "%s: the node handled the request but the call failed: %v", name, err)
		}
		mc.Outcome("handled=%v done=%v", handled, done)
	}
}

func rsInstances(tier string) []Instance {
	var out []Instance
	for _, kind := range []string{"GRPCCall", "QuorumCall", "QuorumCallAsync", "Correctable"} {
		for _, victim := range []string{"GRPCCall", "QuorumCall", "Unicast"} {
			for _, restart := range []bool{false, true} {
				out = append(out, Instance{Name: fmt.Sprintf("restart/after-a-send-cancelled-by-its-context/%s-then-%s/restart=%v", victim, kind, restart), Bound: 1, Root: rsCancelledSendScenario(kind, victim, restart)})
			}
		}
	}
	for _, kind := range []string{"GRPCCall", "QuorumCall", "QuorumCallAsync"} {
		for _, buf := range []uint{0, 1} {
			if buf == 1 && kind != "GRPCCall" && !thorough(tier) {
				continue
			}
			out = append(out, Instance{Name: fmt.Sprintf("restart-during-call/%s/buf=%d", kind, buf), Bound: 2, Root: rsDuringCallScenario(kind, buf)})
		}
	}
	for _, kind := range []string{"GRPCCall", "QuorumCall", "Unicast", "CorrectableStream", "QuorumCallAsync"} {
		for _, calls := range []int{1, 2} {
			if (kind == "CorrectableStream" || kind == "QuorumCallAsync") && calls == 2 && !thorough(tier) {
				continue
			}
			for _, buf := range []uint{0, 1} {
				if buf == 1 && !thorough(tier) && kind != "Unicast" {
					continue
				}
				for _, tt := range []bool{false, true} {
					if tt && calls == 2 && !thorough(tier) {
						continue
					}
					out = append(out, Instance{Name: fmt.Sprintf("restart-adversary/%s/calls=%d/buf=%d/timer-thread=%v", kind, calls, buf, tt), Bound: 2, Root: rsAdversaryScenario(kind, calls, buf, tt)})
				}
			}
		}
	}
	maxLen := 4
	if thorough(tier) {
		maxLen = 5
	}
	var scripts []string
	var gen func(prefix string)
	gen = func(prefix string) {
		if len(prefix) > 0 && strings.Contains(prefix, "c") {
			scripts = append(scripts, prefix)
		}
		if len(prefix) == maxLen {
			return
		}
		for _, ch := range "suc" {
			// skip no-op events (stop while down is filtered at run time, but keep the list small)
			gen(prefix + string(ch))
		}
	}
	gen("")
	// keep scripts that end with a call and have no immediately repeated stop/start
	var keep []string
	for _, s := range scripts {
		if !strings.HasSuffix(s, "c") || strings.Contains(s, "ss") || strings.Contains(s, "uu") {
			continue
		}
		keep = append(keep, s)
	}
	// time advanced by the explorer's choice after every event (free choices, deviation bound 0)
	for _, s := range keep {
		if len(s) > 4 || !strings.Contains(s, "s") {
			continue
		}
		for _, kind := range []string{"GRPCCall", "QuorumCall"} {
			if kind == "QuorumCall" && !thorough(tier) && len(s) > 3 {
				continue
			}
			b := 0
			if thorough(tier) && len(s) <= 3 {
				b = 1
			}
			p := rsParams{script: s, kind: kind, initUp: true, choose: true, n: 1}
			out = append(out, Instance{Name: p.name(), Bound: b, Root: rsScenario(p)})
		}
	}
	for _, s := range keep {
		for _, kind := range []string{"GRPCCall", "QuorumCall", "Unicast"} {
			for _, initUp := range []bool{true, false} {
				if initUp && strings.HasPrefix(s, "u") || !initUp && strings.HasPrefix(s, "s") {
					continue
				}
				for _, fire := range []bool{false, true} {
					for _, blocking := range []bool{false, true} {
						if blocking && (!thorough(tier) && (kind != "GRPCCall" || len(s) > 3)) {
							continue
						}
						ns := []int{1}
						if kind == "QuorumCall" && len(s) <= 3 {
							ns = []int{1, 2}
						}
						for _, n := range ns {
							bound := 1
							if len(s) <= 3 {
								bound = 2
							}
							p := rsParams{script: s, kind: kind, initUp: initUp, fire: fire, blocking: blocking, n: n}
							out = append(out, Instance{Name: p.name(), Bound: bound, Root: rsScenario(p)})
							if kind == "Unicast" && !blocking {
								// fire-and-forget messages are the only traffic: nothing else makes the client reconnect
								p.nsw = true
								out = append(out, Instance{Name: p.name(), Bound: 1, Root: rsScenario(p)})
								p.kind = "Multicast"
								out = append(out, Instance{Name: p.name(), Bound: 1, Root: rsScenario(p)})
							}
						}
					}
				}
			}
		}
	}
	return out
}

func init() {
	register(&Check{ID: "C10",
		Rule:        "fault-sequence enumeration: every script of length <= 4 (5 thorough) over {stop, start, call} that ends with a call, for node 1 initially up or down (down at manager creation included), x call kind {RPC, quorum call on 1 or 2 nodes, unicast, unicast and multicast with no-send-waiting} x back-off timers {fired to the horizon after every stop/start, never, or - as a free choice after every event - nothing / only the shortest armed timer / all} x dial mode {non-blocking, blocking}; manager with general and per-node metadata, servers with a connect callback; after each call the script observes at quiescence WITHOUT firing a timer; plus a family in which 1-2 calls are issued during an outage and the node is restarted by an adversary thread at any instant of a script-chosen round (in particular between two steps of a reconnect attempt), optionally with a second adversary thread that lets the armed back-off timers expire at any instant, after which a probe call must be delivered and answered; plus a family whose history before the outage is a call whose context ended while its write was blocked (the library cancels the stream itself), with and without a crash and restart afterwards; plus a family in which the node crashes and listens again (adversary thread) while a call is being issued - if the restarted server handled the request and replied, the call must get that reply; oracle: (a) a call issued while the node listens is delivered to its current incarnation, (b) once that incarnation's handler has returned the call has its reply with no back-off timer fired, (c) every accepted stream carries both metadata entries and triggers the connect callback exactly once; all schedules within the deviation bound inside each event; an outcome is (instance, accepted streams, incarnations)",
		Gen:         rsInstances,
		Assumptions: []string{"a crash breaks the node's streams immediately (fakegrpc), so the client has noticed the outage at the next quiescent point", "'promptly / never waits out a back-off timer' is decided untimed: no virtual timer is fired between the call and the observation"},
	})
}
