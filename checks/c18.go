package checks

import (
	"context"
	"fmt"
	"strings"

	"verif/mc"
	"verif/world"
)

// C18: completed calls leave no residue. Every call type x every way of ending,
// repeated; once every targeted node has answered or its connection has failed
// the client holds no router and no per-call goroutine.

type resParams struct {
	kind   string
	nsw    bool
	ending string // early-quorum, exhaustion, cancel-then-answer, deadline-silent, crash, handler-error, stream-end
	rounds int
	buf    uint
}

func (p resParams) name() string {
	k := p.kind
	if p.nsw {
		k += "+nsw"
	}
	return fmt.Sprintf("residue/%s/%s/rounds=%d/buf=%d", k, p.ending, p.rounds, p.buf)
}

// perCallThreads lists live client-side goroutines that belong to individual calls.
func perCallThreads() []string {
	var out []string
	for _, t := range world.LibThreads() {
		if strings.Contains(t, "AsyncCall") || strings.Contains(t, "CorrectableCall") || strings.Contains(t, "sendMsg") || strings.Contains(t, "enqueue") || strings.Contains(t, "relayResponses") {
			out = append(out, t)
		}
	}
	return out
}

func resScenario(p resParams) func() {
	return func() {
		win := 4
		if p.ending == "send-fails" || p.ending == "cancel-while-queued" {
			win = 1 // a non-reading server blocks the second unread write
		}
		w := world.New(world.Opts{N: 2, Window: win, SendBuffer: p.buf})
		blockers := map[int]bool{}
		if w.Cfg == nil {
			return
		}
		stream := world.IsStream(p.kind)
		w.Handle = func(h *world.HCtx) world.Reply {
			g := fmt.Sprintf("n%dt%d", h.Node, h.Tok)
			if blockers[h.Tok] {
				world.Block() // occupies the handler slot without releasing: the server stops reading
			}
			switch p.ending {
			case "early-quorum", "cancel-then-answer", "cancel-while-answering":
				if h.Node == 2 || p.ending != "early-quorum" {
					h.Release()
					w.Wait(g)
				}
			case "crash", "deadline-silent", "crash-while-issuing":
				if h.Node == 2 {
					h.Release()
					world.Block()
				}
			case "handler-error":
				if h.Node == 2 {
					return world.Reply{Err: handlerError(2)}
				}
			}
			if h.Send != nil {
				h.Send(0, 0)
				h.Send(1, 0)
				if p.ending == "stream-end" {
					return world.Reply{Err: handlerError(h.Node)}
				}
			}
			return world.Reply{}
		}
		name := p.name()
		key := classOf(p.kind) + "/" + p.ending
		var base []int
		for round := 1; round <= p.rounds; round++ {
			if p.ending == "send-fails" || p.ending == "cancel-while-queued" {
				// node 2: one message in the (never releasing) handler, one filling the window;
				// the write of the call under test then blocks until the stream dies
				for i := 0; i < 2; i++ {
					b := w.NewCall("Unicast")
					b.Node, b.NoSendWaiting = 2, true
					blockers[b.Tok] = true
					w.Invoke(b)
					mc.Quiesce()
				}
			}
			c := w.NewCall(p.kind)
			c.NoSendWaiting = p.nsw
			single := p.kind == "GRPCCall" || strings.HasPrefix(p.kind, "Unicast")
			if single {
				c.Node = 2
			}
			thr := 2
			switch p.ending {
			case "early-quorum":
				thr = 1
			case "exhaustion":
				thr = 3
			}
			c.Verdict = func(inv *world.QFInv) {
				inv.Level = len(inv.Keys)
				inv.Quorum = len(inv.Keys) >= thr
				if stream {
					inv.Quorum = p.ending == "early-quorum"
				}
			}
			if p.ending == "all-skipped" {
				c.Skip = []int{1, 2} // the per-node function gives no node a message
			}
			if p.ending == "one-skipped" {
				c.Skip = []int{2}
			}
			if p.ending == "pre-cancelled-node-down" {
				// node 2 is down and known to be (sender and receiver have noticed) when a call whose
				// context has already ended is issued
				w.FW.Crash(world.Addr(2))
				mc.Quiesce()
			}
			if p.ending == "pre-cancelled" || p.ending == "pre-cancelled-node-down" {
				// the context has ended before the call: the request may still be handed to the sender
				// (select picks at random), which then refuses it
				c.Cancel(context.Canceled)
			}
			w.Start(c)
			mc.Quiesce()
			var second *world.Call
			switch p.ending {
			case "cancel-while-queued":
				// the request waits in the send buffer / at the hand-off behind the blocked sender when
				// its context ends; the sender gets to it only after the stream has been re-created
				c.Cancel(context.Canceled)
				mc.Quiesce()
				w.FW.Crash(world.Addr(2))
				mc.Quiesce()
				w.FW.Restart(world.Addr(2))
			case "early-quorum":
				w.Open(fmt.Sprintf("n2t%d", c.Tok))
			case "cancel-then-answer":
				c.Cancel(context.Canceled)
				mc.Quiesce()
				w.Open(fmt.Sprintf("n1t%d", c.Tok))
				w.Open(fmt.Sprintf("n2t%d", c.Tok))
			case "cancel-while-answering":
				// the nodes answer (stream: keep answering) while the context ends: an adversary thread that
				// the explorer places anywhere in the flow of replies
				w.Open(fmt.Sprintf("n1t%d", c.Tok))
				w.Open(fmt.Sprintf("n2t%d", c.Tok))
				mc.GoLow("cancel", func() { c.Cancel(context.Canceled) })
			case "deadline-silent":
				c.Cancel(context.DeadlineExceeded)
			case "crash", "send-fails":
				w.FW.Crash(world.Addr(2))
				mc.Quiesce()
				w.FW.Restart(world.Addr(2))
			case "crash-while-issuing":
				// node 2 goes down for good while the call waits for it, and a second call of the same
				// kind is issued at that moment: the explorer interleaves the receiver's and the sender's
				// handling of the failure with the hand-over of the second request
				w.FW.Crash(world.Addr(2))
				second = w.NewCall(p.kind)
				second.NoSendWaiting = p.nsw
				if single {
					second.Node = 2
				}
				second.Verdict = c.Verdict
				w.Start(second)
			}
			mc.Quiesce()
			for i := 0; i < 4; i++ {
				if mc.FireTimers(nil) == 0 {
					break
				}
				mc.Quiesce()
			}
			if stream && (p.ending == "exhaustion" || p.ending == "handler-error" || p.ending == "crash" || p.ending == "send-fails" || p.ending == "crash-while-issuing" || p.ending == "one-skipped") {
				// a stream call only ends through done, failure of all nodes or its context
				c.Cancel(context.Canceled)
				if second != nil {
					second.Cancel(context.Canceled)
				}
				mc.Quiesce()
			}
			// every targeted node has answered (or its connection failed) by now, except a silent node
			counts := []int{w.Routers(1), w.Routers(2)}
			outstanding := 0
			if p.ending == "deadline-silent" && !world.IsOneWay(p.kind) && !stream {
				outstanding = 1 // node 2 never answers: its router legitimately remains until it does
			}
			if round == 1 {
				base = counts
			}
			if counts[0] != 0 || counts[1] > outstanding*round {
				fail("C18/router-left", key, "%s: after round %d every targeted node has answered or failed, but the client keeps routers n1=%d n2=%d (expected at most %d for the silent node)", name, round, counts[0], counts[1], outstanding*round)
			}
			if th := perCallThreads(); len(th) > 0 {
				fail("C18/goroutine-left", key+" "+strings.Join(threadSites(th), ","), "%s: after round %d per-call goroutines are still alive: %v", name, round, th)
			}
			if done, _ := callDone(c); !done {
				fail("C18/call-not-done", key, "%s: round %d: the call has not completed", name, round)
			}
			if second != nil {
				if done, _ := callDone(second); !done {
					fail("C18/call-not-done", key, "%s: round %d: the second call has not completed", name, round)
				}
			}
			if second != nil || p.ending == "pre-cancelled-node-down" {
				// the node listens again before the next round
				w.FW.Restart(world.Addr(2))
				mc.Quiesce()
				for i := 0; i < 4 && mc.FireTimers(nil) > 0; i++ {
					mc.Quiesce()
				}
			}
			if round > 1 && outstanding == 0 && (counts[0] != base[0] || counts[1] != base[1]) {
				fail("C18/growth", key, "%s: bookkeeping grows from %v after round 1 to %v after round %d", name, base, counts, round)
			}
		}
		mc.Outcome("ok")
	}
}

func resInstances(tier string) []Instance {
	var out []Instance
	type k struct {
		kind string
		nsw  bool
	}
	kinds := []k{{"GRPCCall", false}, {"QuorumCall", false}, {"QuorumCallAsync", false}, {"Correctable", false}, {"CorrectableStream", false},
		{"Unicast", false}, {"Unicast", true}, {"Multicast", false}, {"Multicast", true}}
	if thorough(tier) {
		kinds = append(kinds, k{"QuorumCallCombo", false}, k{"QuorumCallAsyncPerNodeArg", false}, k{"CorrectableStreamCombo", false}, k{"MulticastPerNodeArg", false})
	}
	endings := []string{"early-quorum", "exhaustion", "cancel-then-answer", "cancel-while-answering", "deadline-silent", "crash", "handler-error", "stream-end", "send-fails", "pre-cancelled", "cancel-while-queued", "crash-while-issuing", "pre-cancelled-node-down"}
	for _, kd := range kinds {
		for _, e := range endings {
			if e == "stream-end" && !world.IsStream(kd.kind) {
				continue
			}
			if world.IsOneWay(kd.kind) && (e == "exhaustion" || e == "handler-error") {
				continue
			}
			if e == "cancel-while-queued" && kd.kind == "Correctable" && !thorough(tier) {
				continue
			}
			for _, buf := range []uint{0, 1} {
				if buf == 1 && !thorough(tier) && !world.IsOneWay(kd.kind) && e != "cancel-while-queued" {
					continue
				}
				bound := 1
				if thorough(tier) || (e == "crash-while-issuing" && buf == 0 && kd.kind == "QuorumCall") || (buf == 0 && (e == "crash" || e == "send-fails" || e == "cancel-then-answer" || (e == "cancel-while-answering" && world.IsStream(kd.kind)))) {
					bound = 2
				}
				p := resParams{kind: kd.kind, nsw: kd.nsw, ending: e, rounds: 2, buf: buf}
				if e == "cancel-while-answering" && bound == 2 {
					p.rounds = 1 // the adversary thread makes a round expensive; residue shows after the first
				}
				out = append(out, Instance{Name: p.name(), Bound: bound, Root: resScenario(p)})
			}
		}
	}
	// per-node function that gives no node (or only node 1) a message
	for _, kind := range []string{"QuorumCallPerNodeArg", "QuorumCallAsyncPerNodeArg", "CorrectablePerNodeArg", "CorrectableStreamPerNodeArg", "MulticastPerNodeArg"} {
		for _, e := range []string{"all-skipped", "one-skipped"} {
			p := resParams{kind: kind, ending: e, rounds: 2}
			out = append(out, Instance{Name: p.name(), Bound: 1, Root: resScenario(p)})
		}
	}
	return out
}

func init() {
	register(&Check{ID: "C18",
		Rule:        "9 call variants (13 thorough) x way of ending {quorum before all replies then the straggler answers, exhaustion, cancel then the nodes answer, cancel (an adversary thread) while the nodes answer, deadline with a node that stays silent, node crash + restart, handler error, stream end, the write itself failing (stream dies while the request is blocked in SendMsg on a full window), context already ended before the call (node up, or down and known to be), per-node function skipping every node / one node, context ending while the request waits in the send buffer behind a blocked sender, node going down for good while the call waits for it and a second call is being issued} x send buffer {0,1}, each call repeated twice on the same manager; after each round (back-off timers fired) the oracle reads the size of every per-message table of every node's channel (response routers and any other map, by reflection) through an accessor and the live per-call goroutines (call handlers, send watchers, enqueue helpers, reply relays) from the scheduler: zero once every targeted node has answered or its connection failed (one router per round only for a node that never answers), no growth between rounds; all schedules within the deviation bound; an outcome is the instance",
		Gen:         resInstances,
		Assumptions: []string{"router counts are read through an accessor added by overlay; goroutines are identified by their spawn site"},
	})
}
