package checks

import (
	"context"
	"errors"
	"fmt"
	"regexp"
	"strconv"
	"strings"

	"github.com/relab/gorums"
	"google.golang.org/grpc/codes"
	"google.golang.org/grpc/status"

	"verif/mc"
	"verif/mc/mcctx"
	"verif/world"
)

// Focus is the property whose rules are reported; rules of other properties
// evaluated by a shared scenario are dropped.
var Focus string

func fail(rule, key, format string, a ...any) {
	if i := strings.IndexByte(rule, '/'); i > 0 && len(rule) >= 3 && rule[0] == 'C' && rule[:i] != Focus && Focus != "" {
		return
	}
	mc.FailKey(rule, key, format, a...)
}

// ---- C01 / C02: history enumeration of one quorum call against a reference reply loop ----

type nodeBeh int

const (
	bR0 nodeBeh = iota // reply with value digit 0
	bR1                // reply with value digit 1
	bE                 // handler error
	bS                 // silent: the handler never returns
	bK                 // skipped by the per-node function
)

var behNames = []string{"R0", "R1", "E", "S", "K"}

type qfKind struct {
	name string
	f    func(vals []int64) bool
}

func qfThreshold(t int) qfKind {
	return qfKind{fmt.Sprintf("thr%d", t), func(v []int64) bool { return len(v) >= t }}
}

var qfTwoEqual = qfKind{"twoEqual", func(v []int64) bool {
	for i := range v {
		for j := i + 1; j < len(v); j++ {
			if v[i]%10 == v[j]%10 {
				return true
			}
		}
	}
	return false
}}

var qfAnyOne = qfKind{"anyOne", func(v []int64) bool {
	for _, x := range v {
		if x%10 == 1 {
			return true
		}
	}
	return false
}}

var countsRe = regexp.MustCompile(`errors: (\d+), replies: (\d+)`)

type qcParams struct {
	kind   string
	behs   []nodeBeh
	qf     qfKind
	cancel error // nil: no cancel event
	pre    bool  // context ended before the call is issued
	hold   int   // the hold-th quorum-function invocation is slow: it blocks until every remaining answer has arrived
}

func (p qcParams) name() string {
	var bs []string
	for _, b := range p.behs {
		bs = append(bs, behNames[b])
	}
	c := "none"
	if p.cancel != nil {
		c = map[error]string{context.Canceled: "canceled", context.DeadlineExceeded: "deadline", appCause: "canceled-with-cause"}[p.cancel]
		if p.pre {
			c = "pre-" + c
		}
	}
	h := ""
	if p.hold > 0 {
		h = fmt.Sprintf("/slow-qf@%d", p.hold)
	}
	return fmt.Sprintf("qc/%s/%s/%s/cancel=%s%s", p.kind, strings.Join(bs, ","), p.qf.name, c, h)
}

// appCause cancels a call's context the way context.WithCancelCause does: ctx.Err() is context.Canceled and
// context.Cause(ctx) is an application error. Callers must still see the context's error.
var appCause = mcctx.WithCause{Cause: errors.New("application is shutting down")}

// ctxErrOf is what ctx.Err() reports after a cancellation with err.
func ctxErrOf(err error) error {
	if _, ok := err.(mcctx.WithCause); ok {
		return context.Canceled
	}
	return err
}

// busySenderScenario: node 2's sender is stuck writing an earlier message (its server does not read), so the
// quorum call's request for node 2 cannot even be handed over. Node 1 answers, and the quorum function is
// satisfied by one reply: the call must return success without waiting for node 2's sender.
func busySenderScenario(kind string, buf uint) func() {
	return func() {
		w := world.New(world.Opts{N: 2, Window: 1, SendBuffer: buf})
		if w.Cfg == nil {
			return
		}
		blockers := map[int]bool{}
		w.Handle = func(h *world.HCtx) world.Reply {
			if blockers[h.Tok] {
				world.Block()
			}
			return world.Reply{}
		}
		for i := 0; i < 3+int(buf); i++ {
			x := w.NewCall("Unicast")
			x.Node, x.NoSendWaiting = 2, true
			x.Ctx = context.Background()
			blockers[x.Tok] = true
			w.Start(x)
			mc.Quiesce()
		}
		c := w.NewCall(kind)
		c.Ctx = context.Background()
		c.Verdict = func(inv *world.QFInv) { inv.Quorum = len(inv.Keys) >= 1 }
		w.Start(c)
		mc.Quiesce()
		name := fmt.Sprintf("qc/%s/busy-sender-on-node-2/buf=%d", kind, buf)
		done := c.Returned
		if world.IsAsync(kind) {
			done = c.Returned && c.Fut.Done()
		}
		if w.Entered(1, c.Tok) == 1 && !done {
			fail("C02/return-iff", classOf(kind)+"/busy-sender", "%s: node 1 has answered and one reply satisfies the quorum function, but the call has not returned: it is still handing its request to node 2, whose sender is busy (quorum function invoked %d times)", name, len(c.QF))
			mc.Outcome("waiting")
			return
		}
		mc.Outcome("returned")
	}
}

// downNodeBackoffScenario: node 2 is down for good. A first call (one reply suffices) has returned; node 2's
// sender still holds that call's request and sleeps in the back-off of its failed reconnect attempt. A second
// call is issued: node 1 answers, which satisfies its quorum function - the call must return without any timer
// expiring. (The same hand-over as in busySenderScenario, with the sender asleep instead of blocked in a write.)
func downNodeBackoffScenario(kind string) func() {
	return func() {
		w := world.New(world.Opts{N: 2})
		if w.Cfg == nil {
			return
		}
		w.Handle = func(h *world.HCtx) world.Reply { return world.Reply{} }
		w.FW.Crash(world.Addr(2))
		mc.Quiesce()
		mk := func() *world.Call {
			c := w.NewCall(kind)
			c.Ctx = context.Background()
			c.Verdict = func(inv *world.QFInv) { inv.Quorum = len(inv.Keys) >= 1 }
			return c
		}
		a := mk()
		w.Start(a)
		mc.Quiesce()
		b := mk()
		w.Start(b)
		mc.Quiesce()
		name := fmt.Sprintf("qc/%s/node-2-down-sender-in-back-off", kind)
		for i, c := range []*world.Call{a, b} {
			done := c.Returned
			if world.IsAsync(kind) {
				done = c.Returned && c.Fut.Done()
			}
			if w.Entered(1, c.Tok) == 1 && !done {
				fail("C02/return-iff", classOf(kind)+"/sender-in-back-off", "%s: node 1 has answered call %d and one reply satisfies the quorum function, but the call has not returned: it is still handing its request to node 2, which is down and whose sender sleeps in its reconnect back-off (%d timers armed, none fired)", name, i+1, mc.PendingTimers())
				mc.Outcome("waiting")
				return
			}
		}
		mc.Outcome("returned")
	}
}

// afterOneWayResetScenario: the history before the quorum call is a one-way message written to node 2 and a
// reset of node 2's stream (the node stays up and the stream is re-created). Both nodes then answer the quorum
// call, which must return success: what the one-way message left behind must not keep it from returning.
func afterOneWayResetScenario(kind string, nsw bool, oneWay string) func() {
	return func() {
		w := world.New(world.Opts{N: 2})
		if w.Cfg == nil {
			return
		}
		w.Handle = func(h *world.HCtx) world.Reply { return world.Reply{} }
		x := w.NewCall(oneWay)
		x.NoSendWaiting = nsw
		if oneWay == "Unicast" {
			x.Node = 2
		}
		x.Ctx = context.Background()
		w.Invoke(x)
		mc.Quiesce()
		w.FW.Reset(world.Addr(2))
		mc.Quiesce()
		c := w.NewCall(kind)
		c.Ctx = context.Background()
		c.Verdict = func(inv *world.QFInv) { inv.Quorum = len(inv.Keys) >= 2 }
		w.Start(c)
		mc.Quiesce()
		name := fmt.Sprintf("qc/%s/after-%s-nsw=%v-and-reset-of-node-2", kind, oneWay, nsw)
		done, err := callDone(c)
		switch {
		case !done:
			fail("C02/return-iff", classOf(kind)+"/after-one-way-and-reset", "%s: both nodes are up and answer, but the call has not returned (node 1 entered %d, node 2 entered %d, quorum function invoked %d times)", name, w.Entered(1, c.Tok), w.Entered(2, c.Tok), len(c.QF))
			mc.Outcome("waiting")
		case err != nil:
			fail("C02/other-outcome", classOf(kind)+"/after-one-way-and-reset", "%s: both nodes are up and answer and the context is alive, but the call reports %v", name, err)
			mc.Outcome("error")
		default:
			mc.Outcome("returned")
		}
	}
}

func handlerError(node int) error {
	return status.Error(codes.NotFound, fmt.Sprintf("boom%d", node))
}

// qcHistory is the scenario: one call; the script delivers the nodes' answers
// (and the cancel) one at a time, at quiescent points, in every order.
func qcHistory(p qcParams) func() {
	return func() {
		n := len(p.behs)
		w := world.New(world.Opts{N: n})
		if w.Cfg == nil {
			return
		}
		w.Handle = func(h *world.HCtx) world.Reply {
			b := p.behs[h.Node-1]
			if b == bS {
				world.Block()
			}
			w.Wait(fmt.Sprintf("n%d", h.Node))
			switch b {
			case bR0:
				return world.Reply{Val: 0}
			case bR1:
				return world.Reply{Val: 1}
			case bE:
				return world.Reply{Err: handlerError(h.Node)}
			}
			mc.Fail("harness/unexpected-handler", "handler entered on skipped node %d", h.Node)
			return world.Reply{}
		}
		c := w.NewCall(p.kind)
		for i, b := range p.behs {
			if b == bK {
				c.Skip = append(c.Skip, i+1)
			}
		}
		c.Verdict = func(inv *world.QFInv) {
			if p.hold > 0 && len(c.QF)+1 == p.hold {
				w.Wait("qf-hold") // a slow quorum function: further answers queue up meanwhile
			}
			inv.Quorum = p.qf.f(inv.Vals)
		}
		async := world.IsAsync(p.kind)

		// reference model
		targeted := len(c.Targets())
		answered, replies, errs := 0, 0, 0
		quorum, cancelled := false, false
		var delivered []int64   // values of successful replies in delivery order
		var snapshots [][]int64 // expected QF inputs (sorted by node id) per invocation
		var snapKeys [][]uint32
		quorumAt := -1
		var events []int
		for i, b := range p.behs {
			if b == bR0 || b == bR1 || b == bE {
				events = append(events, i+1)
			}
		}
		if p.cancel != nil && !p.pre {
			events = append(events, -1)
		}
		if p.pre {
			c.Cancel(p.cancel)
			cancelled = true
		}
		w.Start(c)

		done := func() bool {
			if !c.Returned {
				return false
			}
			if async {
				return c.Fut.Done()
			}
			return true
		}
		okeys := map[int]int64{}
		observe := func(where string) {
			must := quorum || answered == targeted || cancelled
			if got := done(); got != must {
				key := fmt.Sprintf("%s targeted=%d", classOf(p.kind), targeted)
				if targeted > 0 {
					key = fmt.Sprintf("%s done=%v quorum=%v answered-all=%v cancelled=%v", classOf(p.kind), got, quorum, answered == targeted, cancelled)
				}
				fail("C02/return-iff", key, "%s: %s done=%v but model says quorum=%v answered=%d/%d cancelled=%v", p.name(), where, got, quorum, answered, targeted, cancelled)
			}
		}
		hist := ""
		held := false
		for {
			mc.Quiesce()
			if !held {
				observe("after " + hist)
			}
			if (done() && !held) || len(events) == 0 {
				break
			}
			k := mc.Choose(len(events))
			ev := events[k]
			events = append(events[:k:k], events[k+1:]...)
			if ev == -1 {
				hist += "C"
				cancelled = true
				c.Cancel(p.cancel)
				continue
			}
			hist += strconv.Itoa(ev)
			answered++
			if p.behs[ev-1] == bE {
				errs++
			} else {
				replies++
				okeys[ev] = world.Stamp(c.Tok, ev, 0, int(p.behs[ev-1]))
				var ks []uint32
				var vs []int64
				for id := 1; id <= n; id++ {
					if v, ok := okeys[id]; ok {
						ks = append(ks, uint32(id))
						vs = append(vs, v)
					}
				}
				delivered = append(delivered, okeys[ev])
				snapshots = append(snapshots, vs)
				snapKeys = append(snapKeys, ks)
				if !quorum && p.qf.f(vs) {
					quorum = true
					quorumAt = len(snapshots) - 1
				}
				if p.hold > 0 && len(snapshots) == p.hold && (quorumAt < 0 || quorumAt >= p.hold-1) {
					held = true // this reply starts the slow invocation; the rest arrives while it runs
					hist += "["
				}
			}
			w.Open(fmt.Sprintf("n%d", ev))
		}
		if held {
			hist += "]"
			w.Open("qf-hold")
			mc.Quiesce()
			observe("after " + hist)
		}
		mc.Outcome("hist=%s", hist)

		// outcome
		var resp any
		var rerr error
		if done() {
			if async {
				resp, rerr = world.AsyncGet(c.Fut)
				r2, e2 := world.AsyncGet(c.Fut)
				if r2 != resp || !sameErr(rerr, e2) {
					fail("C02/async-get-stable", classOf(p.kind), "%s: two Get calls differ: (%v,%v) then (%v,%v)", p.name(), resp, rerr, r2, e2)
				}
				if !c.Fut.Done() {
					fail("C02/async-done", classOf(p.kind), "%s: Done() false after Get returned", p.name())
				}
			} else {
				resp, rerr = c.Resp, c.Err
			}
			switch {
			case rerr == nil:
				mc.Outcome("ok")
				if !quorum {
					fail("C01/success-without-quorum", classOf(p.kind), "%s: success although the quorum function never reported a quorum on genuine replies (hist %s)", p.name(), hist)
				}
				var last *world.QFInv
				if len(c.QF) > 0 {
					last = c.QF[len(c.QF)-1]
				}
				if last == nil || !last.Quorum {
					fail("C01/success-without-verdict", classOf(p.kind), "%s: success but the last QF invocation did not report a quorum", p.name())
				} else if resp != last.Ret {
					fail("C01/value", classOf(p.kind), "%s: returned %v, the quorum function returned %v", p.name(), resp, last.Ret)
				}
				if world.IsCustom(p.kind) {
					if _, ok := resp.(interface{ GetValue() string }); !ok {
						fail("C01/custom-type", classOf(p.kind), "%s: custom return type lost: %T", p.name(), resp)
					}
				}
			case errors.Is(rerr, gorums.Incomplete):
				mc.Outcome("incomplete")
				if resp != nil {
					fail("C02/incomplete-value", classOf(p.kind), "%s: Incomplete with a non-nil value", p.name())
				}
				m := countsRe.FindStringSubmatch(rerr.Error())
				if quorum {
					fail("C02/incomplete-after-quorum", classOf(p.kind), "%s: Incomplete although the quorum function reported a quorum (hist %s)", p.name(), hist)
				}
				if m == nil {
					fail("C02/incomplete-text", classOf(p.kind), "%s: no counts in %q", p.name(), rerr.Error())
				} else {
					e, _ := strconv.Atoi(m[1])
					r, _ := strconv.Atoi(m[2])
					switch {
					case e+r != targeted:
						fail("C02/incomplete-counts", classOf(p.kind), "%s: errors=%d + replies=%d != targeted=%d", p.name(), e, r, targeted)
					case !cancelled && (answered != targeted || e != errs || r != replies):
						fail("C02/incomplete-counts", classOf(p.kind), "%s: errors=%d replies=%d but model errors=%d replies=%d answered=%d/%d", p.name(), e, r, errs, replies, answered, targeted)
					case cancelled && (r != replies || e < errs):
						fail("C02/incomplete-counts", classOf(p.kind), "%s: errors=%d replies=%d after cancel; model errors>=%d replies=%d", p.name(), e, r, errs, replies)
					}
				}
				for i, b := range p.behs {
					if b != bE {
						continue
					}
					if w.Entered(i+1, c.Tok) == 0 || !w.IsOpen(fmt.Sprintf("n%d", i+1)) {
						continue
					}
					if cnt := strings.Count(rerr.Error(), fmt.Sprintf("node %d:", i+1)); cnt != 1 {
						fail("C07/named-once", classOf(p.kind), "%s: failing node %d named %d times in %q", p.name(), i+1, cnt, rerr.Error())
					}
					if !strings.Contains(rerr.Error(), fmt.Sprintf("code = NotFound desc = boom%d", i+1)) {
						fail("C07/handler-status", classOf(p.kind), "%s: handler status of node %d lost in %q", p.name(), i+1, rerr.Error())
					}
				}
			case p.cancel != nil && errors.Is(rerr, ctxErrOf(p.cancel)):
				mc.Outcome("ctx")
				if !cancelled {
					fail("C02/ctx-without-cancel", classOf(p.kind), "%s: context error before the context ended", p.name())
				}
				if resp != nil {
					fail("C02/ctx-value", classOf(p.kind), "%s: context error with a non-nil value", p.name())
				}
			default:
				mc.Outcome("other")
				fail("C02/other-outcome", classOf(p.kind), "%s: outcome is neither success, Incomplete nor the context's error: %v", p.name(), rerr)
			}
		} else {
			mc.Outcome("waiting")
		}

		// quorum-function log against the model's snapshots
		if c.QFMax > 1 {
			fail("C01/qf-overlap", classOf(p.kind), "%s: quorum function invoked concurrently (%d in flight)", p.name(), c.QFMax)
		}
		for i, inv := range c.QF {
			if i >= len(snapshots) {
				fail("C01/qf-extra", classOf(p.kind), "%s: QF invocation %d (%v) has no matching successful reply (hist %s)", p.name(), i, inv, hist)
				break
			}
			if quorumAt >= 0 && i > quorumAt {
				fail("C01/qf-after-quorum", classOf(p.kind), "%s: QF invoked again after it reported a quorum (invocation %d)", p.name(), i)
			}
			if !inv.SameReq {
				fail("C01/qf-request", classOf(p.kind), "%s: QF invocation %d did not receive the caller's request", p.name(), i)
			}
			if inv.AfterRet {
				fail("C01/qf-after-return", classOf(p.kind), "%s: QF invoked after the call returned", p.name())
			}
			if fmt.Sprint(inv.Keys) != fmt.Sprint(snapKeys[i]) || fmt.Sprint(inv.Vals) != fmt.Sprint(snapshots[i]) {
				fail("C01/qf-replies", classOf(p.kind), "%s: QF invocation %d saw %v=%v, genuine replies so far are %v=%v (hist %s)", p.name(), i, inv.Keys, inv.Vals, snapKeys[i], snapshots[i], hist)
			}
		}
		want := len(snapshots)
		if quorumAt >= 0 {
			want = quorumAt + 1
		}
		if !cancelled && len(c.QF) != want {
			fail("C01/qf-count", classOf(p.kind), "%s: %d QF invocations, expected %d (one per successful reply up to the quorum; hist %s)", p.name(), len(c.QF), want, hist)
		}
		if cancelled && len(c.QF) > want {
			fail("C01/qf-count", classOf(p.kind), "%s: %d QF invocations, at most %d expected (hist %s)", p.name(), len(c.QF), want, hist)
		}
		// every targeted node that was asked saw exactly one handler entry with the right payload
		for id := 1; id <= n; id++ {
			ent := w.Entered(id, c.Tok)
			if p.behs[id-1] == bK && ent != 0 {
				fail("C06/skipped-node-contacted", classOf(p.kind), "%s: node %d was skipped by the per-node function but received the call", p.name(), id)
			}
			if ent > 1 {
				fail("C03/handler-twice", classOf(p.kind), "%s: node %d started the handler %d times", p.name(), id, ent)
			}
		}
		_ = delivered
	}
}

func sameErr(a, b error) bool {
	if a == nil || b == nil {
		return a == b
	}
	return a.Error() == b.Error()
}

// classOf maps a generated method to the runtime entry point it exercises.
func classOf(kind string) string {
	switch {
	case world.IsAsync(kind):
		return "async"
	case world.IsStream(kind):
		return "correctable-stream"
	case world.IsCorrectable(kind):
		return "correctable"
	case strings.HasPrefix(kind, "Multicast"):
		return "multicast"
	case strings.HasPrefix(kind, "Unicast"):
		return "unicast"
	case kind == "GRPCCall":
		return "rpc"
	}
	return "quorumcall"
}

func behVectors(n int, allowSkip bool) [][]nodeBeh {
	base := 4
	if allowSkip {
		base = 5
	}
	total := 1
	for i := 0; i < n; i++ {
		total *= base
	}
	var out [][]nodeBeh
	for c := 0; c < total; c++ {
		v := make([]nodeBeh, n)
		x := c
		for i := range v {
			v[i] = nodeBeh(x % base)
			x /= base
		}
		out = append(out, v)
	}
	return out
}

func qcInstances(tier string) []Instance {
	var out []Instance
	add := func(p qcParams, bound int) {
		out = append(out, Instance{Name: p.name(), Bound: bound, Root: qcHistory(p)})
	}
	syncKinds := []string{"QuorumCall", "QuorumCallPerNodeArg", "QuorumCallCustomReturnType", "QuorumCallCombo"}
	asyncKinds := []string{"QuorumCallAsync", "QuorumCallAsyncPerNodeArg", "QuorumCallAsyncCustomReturnType", "QuorumCallAsyncCombo"}
	cancels := []struct {
		err error
		pre bool
	}{{nil, false}, {context.Canceled, false}, {context.DeadlineExceeded, false}, {context.Canceled, true}, {appCause, false}}
	maxN := 3
	for n := 1; n <= maxN; n++ {
		kinds := append(append([]string{}, syncKinds...), asyncKinds...)
		for _, kind := range kinds {
			// the full product is explored for the plain and the combo variant; the
			// other variants share the runtime path and get the threshold functions only
			full := kind == "QuorumCall" || kind == "QuorumCallCombo" || kind == "QuorumCallAsync" || kind == "QuorumCallAsyncCombo"
			if n == 3 && !full && !thorough(tier) {
				continue
			}
			var qfs []qfKind
			for t := 1; t <= n+1; t++ {
				qfs = append(qfs, qfThreshold(t))
			}
			if full && n >= 2 {
				qfs = append(qfs, qfTwoEqual, qfAnyOne)
			}
			for _, behs := range behVectors(n, world.HasPerNode(kind)) {
				for _, qf := range qfs {
					for _, cn := range cancels {
						if n == 3 && !thorough(tier) && (cn.err == context.DeadlineExceeded || cn.pre) {
							continue
						}
						bound := 0
						switch {
						case thorough(tier) && n <= 2:
							bound = 2
						case thorough(tier):
							bound = 1
						case n <= 2 && full:
							bound = 1
						}
						add(qcParams{kind: kind, behs: behs, qf: qf, cancel: cn.err, pre: cn.pre}, bound)
						if cn.err == nil && n >= 2 && (kind == "QuorumCall" || kind == "QuorumCallAsync" || (thorough(tier) && full)) {
							for hold := 1; hold < n; hold++ {
								hb := 0
								if thorough(tier) {
									hb = 1
								}
								add(qcParams{kind: kind, behs: behs, qf: qf, hold: hold}, hb)
							}
						}
					}
				}
			}
		}
	}
	return out
}

func init() {
	rule := "every history of one quorum call: n in 1..3 nodes x per-node behaviour {reply 0, reply 1, handler error, silent, skipped} x quorum function {threshold 1..n+1, two equal values, any value 1} x call variant (plain, per-node, custom return type, combo; sync and async) x cancel {none, Canceled, DeadlineExceeded, already ended, cancelled with a cause (context.WithCancelCause)} x slow quorum function {none, the 1st / 2nd invocation blocks while all remaining answers arrive and queue up}; the script delivers answers one at a time at quiescent points in every order (free choices) and every schedule within the deviation bound is explored inside each step; an outcome is the pair (delivery history, result class)"
	assume := []string{
		"transport is the fakegrpc model (ordered reliable frames per stream, window 2); Go primitives are the gomc shims",
		"interleavings are explored up to the reported deviation bound from the non-preemptive round-robin schedule; free choices (arrival order, select ties) are exhaustive",
	}
	register(&Check{ID: "C01", Rule: rule + "; plus C05's stalled-sender family restricted to quorum calls (an earlier quorum call of the same goroutine has left a request queued behind a stalled sender): every reply shown to the second call's quorum function is the one the node's handler produced for that call's own request; plus C05's concurrent quorum calls on equal or overlapping configurations with handlers that release early and answer in every order (same oracle)",
		Gen: func(tier string) []Instance {
			out := qcInstances(tier)
			for _, in := range xtalkInstances(tier) {
				if strings.HasPrefix(in.Name, "stalled-sender/QuorumCall") && !strings.Contains(in.Name, ";Correctable") && !strings.Contains(in.Name, ";GRPCCall") {
					in.Name = "after-earlier-call/" + in.Name
					out = append(out, in)
				}
				// concurrent quorum calls on equal / overlapping configurations, every handler releasing early and
				// answering late (C05's family, quorum calls only)
				if strings.HasPrefix(in.Name, "xtalk/QuorumCall") && !strings.Contains(in.Name, "Correctable") && (!strings.Contains(in.Name, "GRPCCall") || strings.Contains(in.Name, "thr2")) && !strings.Contains(in.Name, "cast") {
					in.Name = "among-concurrent-calls/" + in.Name
					out = append(out, in)
				}
			}
			return out
		}, Assumptions: assume})
	register(&Check{ID: "C02", Rule: rule + "; plus C05's concurrent quorum calls on equal or overlapping configurations (every such call is over once all its nodes have answered); plus a quorum call issued after a one-way message (unicast / multicast, with and without no-send-waiting) and a reset of the node's stream, which must return success when both nodes answer; plus the connection-fault instances of C07 for one failing node of two (crash, reset, crash+restart struck by an adversary thread, also while the request is still queued), where an Incomplete result must account for exactly the nodes that failed - never while a targeted node is still silent and the context alive",
		Gen: func(tier string) []Instance {
			out := qcInstances(tier)
			for _, kind := range []string{"QuorumCall", "QuorumCallAsync"} {
				for _, buf := range []uint{0, 1} {
					out = append(out, Instance{Name: fmt.Sprintf("qc/%s/busy-sender-on-node-2/buf=%d", kind, buf), Bound: 1, Root: busySenderScenario(kind, buf)})
				}
				out = append(out, Instance{Name: fmt.Sprintf("qc/%s/node-2-down-sender-in-back-off", kind), Bound: 1, Root: downNodeBackoffScenario(kind)})
			}
			for _, kind := range []string{"QuorumCall", "QuorumCallAsync"} {
				for _, ow := range []string{"Unicast", "Multicast"} {
					for _, nsw := range []bool{false, true} {
						out = append(out, Instance{Name: fmt.Sprintf("qc/%s/after-%s-nsw=%v-and-reset-of-node-2", kind, ow, nsw), Bound: 1, Root: afterOneWayResetScenario(kind, nsw, ow)})
					}
				}
			}
			for _, in := range xtalkInstances(tier) {
				// concurrent quorum calls on equal / overlapping configurations (C05's family, quorum calls only)
				if strings.HasPrefix(in.Name, "xtalk/QuorumCall") && !strings.Contains(in.Name, "Correctable") && (!strings.Contains(in.Name, "GRPCCall") || strings.Contains(in.Name, "thr2")) && !strings.Contains(in.Name, "cast") {
					in.Name = "among-concurrent-calls/" + in.Name
					out = append(out, in)
				}
			}
			for _, in := range faultInstances(tier) {
				if strings.Contains(in.Name, "/n=2/failing=[2]/") && !strings.Contains(in.Name, "/err-") && !strings.Contains(in.Name, "/down/") && strings.Contains(in.Name, "thr=healthy+1") {
					in.Name = "with-faults/" + in.Name
					out = append(out, in)
				}
			}
			return out
		}, Assumptions: assume})
}
