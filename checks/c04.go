package checks

import (
	"fmt"
	"runtime"
	"strings"

	"verif/mc"
	"verif/world"
)

// C04: one handler at a time per client connection until Release.

type hbeh int

const (
	hRet       hbeh = iota // return at once
	hGate                  // wait for the gate, then return (implicit release)
	hRelGate               // Release, wait for the gate, return
	hRel3Gate              // Release three times, wait, return, (Release again after return is a no-op by construction)
	hHelperRel             // Release from a helper goroutine, wait, return
	hNever                 // never release, never return
	// server-stream handlers (the request is a correctable stream call)
	hStream2Gate    // send two replies back to back, wait for the gate, return
	hStream2RelGate // send two replies, Release, wait, return
	hStreamSplit    // send a reply, wait for the gate, send another, return
)

var hbehNames = []string{"ret", "gate", "rel+gate", "rel3+gate", "helper-rel+gate", "never", "stream2+gate", "stream2+rel+gate", "stream1+gate+stream1"}

func (b hbeh) stream() bool { return b >= hStream2Gate }

type relParams struct {
	behs    []hbeh // behaviour of request i on connection 1
	conns   int
	recvBuf uint
	lateReg bool // a further handler is registered on the serving server before the second client's requests arrive
}

func (p relParams) name() string {
	var s []string
	for _, b := range p.behs {
		s = append(s, hbehNames[b])
	}
	n := fmt.Sprintf("release/%s/conns=%d/recvbuf=%d", strings.Join(s, ","), p.conns, p.recvBuf)
	if p.lateReg {
		n += "/late-registration"
	}
	return n
}

func relScenario(p relParams) func() {
	return func() {
		w := world.New(world.Opts{N: 1, RecvBuffer: p.recvBuf, Window: 4})
		if w.Cfg == nil {
			return
		}
		behOf := map[int]hbeh{} // token -> behaviour
		w.Handle = func(h *world.HCtx) world.Reply {
			g := fmt.Sprintf("t%d", h.Tok)
			switch behOf[h.Tok] {
			case hGate:
				w.Wait(g)
			case hRelGate:
				h.Release()
				w.Wait(g)
			case hRel3Gate:
				h.Release()
				h.Release()
				h.Release()
				w.Wait(g)
			case hHelperRel:
				mc.GoNamed("helper", func() { h.Release() })
				w.Wait(g)
			case hNever:
				world.Block()
			case hStream2Gate:
				h.Send(0, 1)
				h.Send(1, 1)
				w.Wait(g)
			case hStream2RelGate:
				h.Send(0, 1)
				h.Send(1, 1)
				h.Release()
				w.Wait(g)
			case hStreamSplit:
				h.Send(0, 1)
				w.Wait(g)
				h.Send(1, 1)
			}
			return world.Reply{Val: 1}
		}
		var conn1, conn2 []*world.Call
		var gates []string
		for _, b := range p.behs {
			kind := "QuorumCallAsync"
			if b.stream() {
				kind = "CorrectableStream"
			}
			c := w.NewCall(kind)
			behOf[c.Tok] = b
			conn1 = append(conn1, c)
			if b != hRet && b != hNever {
				gates = append(gates, fmt.Sprintf("t%d", c.Tok))
			}
		}
		if p.conns == 2 {
			mc.NoBranch(true)
			cl := w.NewClient()
			mc.Quiesce()
			mc.NoBranch(false)
			for i := 0; i < 2; i++ {
				c := w.NewCall("QuorumCallAsync")
				c.Cfg = cl.Cfg
				behOf[c.Tok] = hRet
				conn2 = append(conn2, c)
			}
		}
		mc.GoNamed("client1", func() {
			for _, c := range conn1 {
				w.Invoke(c)
			}
		})
		startClient2 := func() {
			mc.GoNamed("client2", func() {
				for _, c := range conn2 {
					w.Invoke(c)
				}
			})
		}
		if p.conns == 2 && !p.lateReg {
			startClient2()
		}
		order := ""
		for first := true; ; first = false {
			mc.Quiesce()
			if first && p.conns == 2 && p.lateReg {
				// the first client's handlers are where they stay until a gate opens; the server gets one more
				// handler registered, then the second client's requests arrive
				mc.GoNamed("registrar", func() { w.RegisterLate(1, "late.Service.Method") })
				mc.Quiesce()
				startClient2()
				mc.Quiesce()
			}
			if len(gates) == 0 {
				break
			}
			k := mc.Choose(len(gates))
			g := gates[k]
			gates = append(gates[:k:k], gates[k+1:]...)
			order += g
			w.Open(g)
		}
		mc.Outcome("gates=%s", order)
		key := strings.Join(func() []string {
			var s []string
			for _, b := range p.behs {
				s = append(s, hbehNames[b])
			}
			return s
		}(), ",")
		// oracle 1: at every handler start no earlier handler of the same connection is unreleased
		active := map[int]map[int]bool{} // conn -> tokens entered and neither returned nor released
		for _, e := range w.Events {
			switch e.Kind {
			case "enter":
				if len(active[e.Conn]) > 0 {
					var a []int
					for t := range active[e.Conn] {
						a = append(a, t)
					}
					fail("C04/overlap", key, "%s: handler of t%d started on connection %d while handler(s) %v had neither returned nor released (gate order %q)", p.name(), e.Tok, e.Conn, a, order)
				}
				if active[e.Conn] == nil {
					active[e.Conn] = map[int]bool{}
				}
				active[e.Conn][e.Tok] = true
			case "release", "exit":
				delete(active[e.Conn], e.Tok)
			}
		}
		// oracle 2: replies of returned handlers reach the right call; blocked connection blocks only itself
		blocked := false
		for _, c := range conn1 {
			b := behOf[c.Tok]
			entered := w.Entered(1, c.Tok)
			if blocked {
				if entered != 0 {
					fail("C04/after-never", key, "%s: t%d entered although an earlier handler of its connection never released", p.name(), c.Tok)
				}
				continue
			}
			if entered != 1 {
				fail("C04/not-started", key, "%s: handler of t%d started %d times (all earlier handlers returned or released)", p.name(), c.Tok, entered)
			}
			if b == hNever {
				blocked = true
				continue
			}
			if b.stream() {
				seen := map[int64]bool{}
				for _, inv := range c.QF {
					for _, v := range inv.Vals {
						seen[v] = true
					}
				}
				// the quorum function completes the call at the first reply; later replies may be dropped
				if !seen[world.Stamp(c.Tok, 1, 0, 1)] {
					fail("C04/reply-missing", key, "%s: the stream handler of t%d sent replies, the call saw %v", p.name(), c.Tok, c.QF)
				}
				continue
			}
			checkAsyncReply(w, c, p.name(), key)
		}
		for _, c := range conn2 {
			if w.Entered(1, c.Tok) != 1 {
				fail("C04/other-connection-delayed", key, "%s: request t%d of the second client was not handled (a handler of the first client never releases)", p.name(), c.Tok)
				continue
			}
			checkAsyncReply(w, c, p.name(), key)
		}
	}
}

// manyReleasedScenario: k handlers of one connection have released and keep running (they wait for a gate that
// opens at the very end); one more request of the same connection and two requests of a second client must
// still be handled. k is chosen around the sizes a server might use for a worker pool (the number of CPUs).
func manyReleasedScenario(k int) func() {
	return func() {
		w := world.New(world.Opts{N: 1, Window: 4})
		if w.Cfg == nil {
			return
		}
		last := 0
		w.Handle = func(h *world.HCtx) world.Reply {
			if h.Tok <= k {
				h.Release()
				w.Wait("end")
			}
			return world.Reply{Val: 1}
		}
		mc.NoBranch(true)
		cl := w.NewClient()
		mc.Quiesce()
		var first []*world.Call
		for i := 0; i < k; i++ {
			first = append(first, w.NewCall("QuorumCallAsync"))
		}
		tail := w.NewCall("QuorumCallAsync")
		last = tail.Tok
		other := w.NewCall("QuorumCallAsync")
		other.Cfg = cl.Cfg
		mc.GoNamed("client1", func() {
			for _, c := range first {
				w.Invoke(c)
			}
			w.Invoke(tail)
		})
		mc.Quiesce()
		mc.GoNamed("client2", func() { w.Invoke(other) })
		mc.Quiesce()
		name := fmt.Sprintf("release/%d-released-handlers-still-running", k)
		running := 0
		for _, c := range first {
			running += w.Entered(1, c.Tok)
		}
		if running != k {
			fail("C04/not-started", "many-released", "%s: only %d of %d handlers that release at once have started", name, running, k)
		}
		if w.Entered(1, last) != 1 {
			fail("C04/not-started", "many-released", "%s: the handler of the next request of the same connection has not started although all earlier handlers have released", name)
		} else {
			checkAsyncReply(w, tail, name, "many-released")
		}
		if w.Entered(1, other.Tok) != 1 {
			fail("C04/other-connection-delayed", "many-released", "%s: the request of a second client has not been handled", name)
		} else {
			checkAsyncReply(w, other, name, "many-released")
		}
		w.Open("end")
		mc.Quiesce()
		mc.Outcome("ok")
	}
}

func checkAsyncReply(w *world.W, c *world.Call, name, key string) {
	if !c.Returned || c.Fut == nil || !c.Fut.Done() {
		fail("C04/reply-missing", key, "%s: the handler of t%d returned but the call has no result", name, c.Tok)
		return
	}
	_, err := world.AsyncGet(c.Fut)
	if err != nil {
		fail("C04/reply-missing", key, "%s: t%d failed: %v", name, c.Tok, err)
		return
	}
	if len(c.QF) != 1 || len(c.QF[0].Vals) != 1 || c.QF[0].Vals[0] != world.Stamp(c.Tok, 1, 0, 1) {
		fail("C05/foreign-reply", key, "%s: t%d saw replies %v, expected its own stamp %d", name, c.Tok, c.QF, world.Stamp(c.Tok, 1, 0, 1))
	}
}

func relInstances(tier string) []Instance {
	var out []Instance
	nb := 6
	for a := 0; a < nb; a++ {
		for b := 0; b < nb; b++ {
			for c := 0; c < nb; c++ {
				for _, conns := range []int{1, 2} {
					for _, rb := range []uint{0, 2} {
						if !thorough(tier) && ((rb == 2 && conns == 2) || (rb == 2 && (a+b+c)%2 == 1)) {
							continue
						}
						bound := 1
						if thorough(tier) {
							bound = 2
						}
						p := relParams{behs: []hbeh{hbeh(a), hbeh(b), hbeh(c)}, conns: conns, recvBuf: rb}
						out = append(out, Instance{Name: p.name(), Bound: bound, Root: relScenario(p)})
					}
				}
			}
		}
	}
	// a handler registered while the first client's handlers are parked, then the second client's requests
	for _, behs := range [][]hbeh{{hNever, hRet, hRet}, {hGate, hRet, hRet}, {hRelGate, hNever, hRet}, {hRet, hHelperRel, hNever}, {hRelGate, hRelGate, hGate}} {
		p := relParams{behs: behs, conns: 2, lateReg: true}
		out = append(out, Instance{Name: p.name(), Bound: 1, Root: relScenario(p)})
	}
	// many released handlers still running (boundary: worker pools sized by the number of CPUs)
	for _, k := range []int{runtime.NumCPU(), runtime.NumCPU() + 1, 2*runtime.NumCPU() + 1} {
		out = append(out, Instance{Name: fmt.Sprintf("release/%d-released-handlers-still-running", k), Bound: 0, Root: manyReleasedScenario(k)})
	}
	// server-stream handlers in first or second position (their preliminary replies are sent from inside the handler)
	for _, st := range []hbeh{hStream2Gate, hStream2RelGate, hStreamSplit} {
		for _, other := range []hbeh{hRet, hGate, hRelGate} {
			for _, rb := range []uint{0, 2} {
				for _, behs := range [][]hbeh{{st, other, hRet}, {other, st, hRet}, {st, st, other}} {
					bound := 1
					if thorough(tier) {
						bound = 2
					}
					p := relParams{behs: behs, conns: 1, recvBuf: rb}
					out = append(out, Instance{Name: p.name(), Bound: bound, Root: relScenario(p)})
				}
			}
		}
	}
	return out
}

func init() {
	register(&Check{ID: "C04",
		Rule:        "one server; connection 1 issues every triple of requests over 6 handler behaviours {return, gate-then-return, release+gate, release x3+gate, release from a helper goroutine+gate, never release}; optionally a second client connection with two plain requests; plus k released handlers that keep running (k = number of CPUs, +1, 2x+1) followed by one more request of the same and one of a second client; plus triples that contain server-stream handlers {two replies back to back then gate, two replies + release + gate, reply + gate + reply} in first or second position; server receive buffer {0,2}; the script opens the gates in every order at quiescent points; all schedules within the deviation bound; oracle on the per-connection event log: no handler starts while an earlier one of its connection is unreleased, replies of released handlers reach their own call, a never-releasing handler blocks only its own connection; an outcome is (instance, gate order)",
		Gen:         relInstances,
		Assumptions: []string{"transport is the fakegrpc model; requests are issued as async quorum calls on a one-node configuration so that several can be outstanding"},
	})
}
