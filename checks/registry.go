// Package checks holds the scenario families and oracles of every property.
package checks

import (
	"sort"
	"time"

	"verif/vp"
)

// Instance is one concrete member of a scenario family.
type Instance struct {
	Name     string
	Bound    int    // deviation bound to reach in this tier
	Root     func() // scenario script run under the scheduler (E1)
	MaxSteps int
	NoCache  bool
	// StartBound is the first deviation bound to explore (default 0; deep copies start at their own bound,
	// which with pruning covers all lower ones).
	StartBound int
	// PruneFrom is the smallest deviation bound explored with fingerprint pruning (default 0: always pruned).
	PruneFrom int
	// Seq runs a sequential enumeration (E2/E3) instead of a scheduled scenario.
	Seq func(r *vp.InstResult)
}

// Check is the set of instances deciding one property.
type Check struct {
	ID   string
	Rule string // how cases are enumerated and what makes an outcome distinct
	Gen  func(tier string) []Instance
	// Assumptions recorded in the evidence.
	Assumptions []string
}

var registry = map[string]*Check{}

func register(c *Check) { registry[c.ID] = c }

// Get returns the check for a property id.
func Get(id string) *Check { return registry[id] }

// IDs lists the registered checks.
func IDs() []string {
	var out []string
	for k := range registry {
		out = append(out, k)
	}
	sort.Strings(out)
	return out
}

func thorough(tier string) bool { return tier == "thorough" }

// Deadline is the wall-clock instant after which enumerations stop and report exhaustive:false.
var Deadline time.Time

func expired() bool { return !Deadline.IsZero() && time.Now().After(Deadline) }
