// Package mcctx provides scheduler-visible contexts. The types are the real
// context types, so values flow through uninstrumented code unchanged.
package mcctx

import (
	"context"
	"time"
	"unsafe"

	"verif/mc"
)

type ctxKey struct{}

var key ctxKey

type mctx struct {
	parent   context.Context
	done     chan struct{}
	err      error
	children []*mctx
	tag      string
	cause    error
}

func (c *mctx) Deadline() (time.Time, bool) { return c.parent.Deadline() }
func (c *mctx) Done() <-chan struct{}       { return c.done }
func (c *mctx) Err() error {
	if !mc.Killing() {
		mc.Point(&mc.Op{Kind: "ctx.Err", Obj: c, RO: true, Alts: func() int { return 1 }, Do: func(int) {}})
		mc.RaceAcquire(unsafe.Pointer(c)) // the real context guards err with a mutex
	}
	return c.err
}

func (c *mctx) tree() []any {
	out := []any{c}
	for _, ch := range c.children {
		out = append(out, ch.tree()...)
	}
	return out
}

// Obj returns the scheduler object standing for ctx's nearest cancellable ancestor (nil if none).
func Obj(ctx context.Context) any {
	if c, ok := ctx.Value(&key).(*mctx); ok {
		return c
	}
	return nil
}
func (c *mctx) Value(k any) any {
	if k == any(&key) {
		return c
	}
	return c.parent.Value(k)
}

func Background() context.Context { return context.Background() }
func TODO() context.Context       { return context.TODO() }

func newCtx(parent context.Context) *mctx {
	c := &mctx{parent: parent, done: make(chan struct{})}
	if p, ok := parent.Value(&key).(*mctx); ok {
		if p.err != nil {
			c.err = p.err
			mc.MarkClosed(c.done)
		} else {
			p.children = append(p.children, c)
		}
	} else if parent.Done() != nil {
		panic("mcctx: parent is a foreign cancellable context")
	}
	return c
}

func (c *mctx) cancel(err error) {
	if c.err != nil {
		return
	}
	c.err = err
	mc.RaceRelease(unsafe.Pointer(c))
	mc.MarkClosed(c.done)
	for _, ch := range c.children {
		if ch.err == nil && ch.cause == nil {
			ch.cause = c.cause // context.Cause of a child is the cause its parent was cancelled with
		}
		ch.cancel(err)
	}
}

// WithCause is an error value for harness use: cancelling through WithCancelErr with it ends the context
// like context.WithCancelCause's cancel(Cause) does: Err() is context.Canceled, context.Cause is Cause.
type WithCause struct{ Cause error }

func (w WithCause) Error() string { return "canceled with cause: " + w.Cause.Error() }

func WithCancel(parent context.Context) (context.Context, context.CancelFunc) {
	c := newCtx(parent)
	return c, func() {
		if mc.Killing() {
			return
		}
		mc.YieldObjs("ctx.cancel", c.tree())
		c.cancel(context.Canceled)
	}
}

// WithCancelErr is for harness use: the returned function cancels with a chosen error.
func WithCancelErr(parent context.Context) (context.Context, func(error)) {
	c := newCtx(parent)
	return c, func(err error) {
		if mc.Killing() {
			return
		}
		mc.YieldObjs("ctx.cancel", c.tree())
		if wc, ok := err.(WithCause); ok {
			if c.err == nil {
				c.cause = wc.Cause
			}
			err = context.Canceled
		}
		c.cancel(err)
	}
}

// WithTimeout: the deadline is a virtual timer that fires only when a scenario fires it.
func WithTimeout(parent context.Context, d time.Duration) (context.Context, context.CancelFunc) {
	c := newCtx(parent)
	t := mc.NewTimer("ctx.timeout", d)
	mc.Go(func() {
		if mc.Select(false, mc.RecvCase((<-chan time.Time)(t.C)), mc.RecvCase(c.Done())) == 0 {
			c.cancel(context.DeadlineExceeded)
		}
	})
	return c, func() {
		if mc.Killing() {
			return
		}
		mc.YieldObjs("ctx.cancel", c.tree())
		t.Stop = true
		c.cancel(context.Canceled)
	}
}

func WithDeadline(parent context.Context, _ time.Time) (context.Context, context.CancelFunc) {
	return WithTimeout(parent, 0)
}

// Peek returns the context's error without a scheduling point (for Await predicates and models).
func Peek(ctx context.Context) error {
	if c, ok := ctx.Value(&key).(*mctx); ok {
		return c.err
	}
	return nil
}

// Acquire announces the happens-before edge from the cancellation of ctx to an
// observer that has just seen it ended (the real context types synchronise internally).
func Acquire(ctx context.Context) {
	if c, ok := ctx.Value(&key).(*mctx); ok && c.err != nil {
		mc.RaceAcquire(unsafe.Pointer(c))
	}
}

// WithCancelCause mirrors context.WithCancelCause.
func WithCancelCause(parent context.Context) (context.Context, context.CancelCauseFunc) {
	c := newCtx(parent)
	return c, func(cause error) {
		if mc.Killing() {
			return
		}
		mc.YieldObjs("ctx.cancel", c.tree())
		if c.err == nil {
			c.cause = cause
		}
		c.cancel(context.Canceled)
	}
}

// Cause mirrors context.Cause for scheduler-visible contexts.
func Cause(ctx context.Context) error {
	if c, ok := ctx.Value(&key).(*mctx); ok {
		if c.cause != nil {
			return c.cause
		}
		return c.err
	}
	return context.Cause(ctx)
}

// WithoutCancel mirrors context.WithoutCancel (values kept, cancellation dropped).
func WithoutCancel(parent context.Context) context.Context {
	return withoutCancel{parent}
}

type withoutCancel struct{ p context.Context }

func (withoutCancel) Deadline() (time.Time, bool) { return time.Time{}, false }
func (withoutCancel) Done() <-chan struct{}       { return nil }
func (withoutCancel) Err() error                  { return nil }
func (w withoutCancel) Value(k any) any {
	if k == any(&key) {
		return nil
	}
	return w.p.Value(k)
}

// AfterFunc mirrors context.AfterFunc: f runs in its own thread once ctx is done.
func AfterFunc(ctx context.Context, f func()) (stop func() bool) {
	stopped, started := false, false
	var o int
	mc.Go(func() {
		if mc.Select(false, mc.RecvCase(ctx.Done())) == 0 {
			run := false
			mc.Point(&mc.Op{Kind: "ctx.afterfunc", Obj: &o, Alts: func() int { return 1 }, Do: func(int) {
				if !stopped {
					started, run = true, true
				}
			}})
			if run {
				f()
			}
		}
	})
	return func() bool {
		ok := false
		mc.Point(&mc.Op{Kind: "ctx.afterfunc.stop", Obj: &o, Alts: func() int { return 1 }, Do: func(int) {
			if !started && !stopped {
				stopped, ok = true, true
			}
		}})
		return ok
	}
}

func WithTimeoutCause(parent context.Context, d time.Duration, _ error) (context.Context, context.CancelFunc) {
	return WithTimeout(parent, d)
}

func WithDeadlineCause(parent context.Context, t time.Time, _ error) (context.Context, context.CancelFunc) {
	return WithTimeout(parent, 0)
}
