package mc

import (
	"unsafe"
)

// Channel state lives in a side table keyed by channel identity; the real
// channel is never used for data (only closed for the benefit of foreign code).

type chanState struct {
	p      uintptr
	id     int
	cap    int
	buf    []any
	closed bool
	ref    any // keeps the real channel alive so its address cannot be reused within the execution
}

type objState struct {
	id int
}

func chanPtr[T any](ch <-chan T) uintptr  { return uintptr(*(*unsafe.Pointer)(unsafe.Pointer(&ch))) }
func chanPtrS[T any](ch chan<- T) uintptr { return uintptr(*(*unsafe.Pointer)(unsafe.Pointer(&ch))) }

func (s *Sched) chanOf(p uintptr, capacity int, ref ...any) *chanState {
	if p == 0 {
		return nil
	}
	// linear scan: a map would be race-instrumented by the runtime even in this package
	for _, c := range s.chanList {
		if c.p == p {
			return c
		}
	}
	c := &chanState{id: len(s.chanList), cap: capacity, p: p}
	if len(ref) > 0 {
		c.ref = ref[0]
	}
	s.chanList = append(s.chanList, c)
	return c
}

func recvCase(p uintptr, capacity int, poll func() bool, ref any) Case {
	if Killing() {
		return Case{}
	}
	return Case{c: S.chanOf(p, capacity, ref), p: p, poll: poll}
}

func sendCase(p uintptr, capacity int, v any, ref any) Case {
	if Killing() {
		return Case{}
	}
	return Case{c: S.chanOf(p, capacity, ref), p: p, send: true, val: v}
}

func gotVal() (any, bool) {
	if Killing() {
		return nil, false
	}
	t := S.cur
	return t.recvVal, t.recvOK
}

// Case is one communication clause of a select.
type Case struct {
	c    *chanState
	p    uintptr
	send bool
	val  any
	// foreign poll for real channels that were closed by uninstrumented code
	poll func() bool
}

func RecvCase[T any](ch <-chan T) Case {
	return recvCase(chanPtr(ch), cap(ch), func() bool { return reallyClosed(ch) }, ch)
}

func SendCase[T any](ch chan<- T, v T) Case {
	return sendCase(chanPtrS(ch), cap(ch), v, ch)
}

func reallyClosed[T any](ch <-chan T) bool {
	if ch == nil {
		return false
	}
	select {
	case _, ok := <-ch:
		if ok {
			panic("gomc: foreign channel carries data; unsupported")
		}
		return true
	default:
		return false
	}
}

// waiting reports whether some other thread has a published, not yet completed
// operation of the opposite direction on channel c; returns that thread and case index.
func (s *Sched) partner(self *Thread, c *chanState, wantSend bool) (*Thread, int) {
	for _, u := range s.threads {
		if u == self || u.done || u.pending == nil || u.opDone {
			continue
		}
		cs, ok := u.pending.Obj.([]Case)
		if !ok {
			continue
		}
		for i, k := range cs {
			if k.c == c && k.send == wantSend {
				return u, i
			}
		}
	}
	return nil, 0
}

func (s *Sched) caseReady(self *Thread, k Case) bool {
	c := k.c
	if c == nil {
		return false // nil channel blocks forever
	}
	if k.send {
		if c.closed {
			return true // will panic, as in Go
		}
		if len(c.buf) < c.cap {
			return true
		}
		if c.cap == 0 {
			u, _ := s.partner(self, c, false)
			return u != nil
		}
		return false
	}
	if len(c.buf) > 0 || c.closed {
		return true
	}
	if c.cap == 0 {
		if u, _ := s.partner(self, c, true); u != nil {
			return true
		}
	}
	if k.poll != nil && k.poll() {
		c.closed = true
		return true
	}
	return false
}

func (s *Sched) doCase(self *Thread, idx int, k Case) {
	c := k.c
	self.selIdx = idx
	if k.send {
		if c.closed {
			panic("send on closed channel")
		}
		if c.cap == 0 {
			// rendezvous: hand over directly to the waiting receiver
			if u, ui := s.partner(self, c, false); u != nil {
				u.recvVal, u.recvOK = k.val, true
				u.selIdx = ui
				u.opDone = true
				u.h = mix(u.h, s.lastX)
				RaceRelease(unsafe.Pointer(c))
				return
			}
		}
		c.buf = append(c.buf, k.val)
		RaceRelease(unsafe.Pointer(c))
		return
	}
	if len(c.buf) > 0 {
		self.recvVal, self.recvOK = c.buf[0], true
		c.buf = c.buf[1:]
		RaceAcquire(unsafe.Pointer(c))
		return
	}
	if c.cap == 0 {
		if u, ui := s.partner(self, c, true); u != nil {
			cs := u.pending.Obj.([]Case)
			self.recvVal, self.recvOK = cs[ui].val, true
			u.selIdx = ui
			u.opDone = true
			u.h = mix(u.h, s.lastX)
			RaceAcquire(unsafe.Pointer(c))
			return
		}
	}
	// closed
	self.recvVal, self.recvOK = nil, false
	RaceAcquire(unsafe.Pointer(c))
}

// Select performs a select over cases; returns the index of the chosen case or -1 for default.
func Select(hasDefault bool, cases ...Case) int {
	if Killing() {
		return -1
	}
	s := S
	t := s.cur
	var ready []int
	op := &Op{Kind: "select", Obj: cases, Free: true}
	for _, k := range cases {
		if k.send && k.c != nil {
			RaceRelease(unsafe.Pointer(k.c)) // published value is visible to whoever completes the rendezvous
		}
	}
	op.Resume = func() {
		if k := cases[t.selIdx]; k.c != nil {
			RaceAcquire(unsafe.Pointer(k.c))
		}
	}
	op.Alts = func() int {
		ready = ready[:0]
		for i, k := range cases {
			if s.caseReady(t, k) {
				ready = append(ready, i)
			}
		}
		if len(ready) == 0 && hasDefault {
			return 1
		}
		return len(ready)
	}
	op.Do = func(k int) {
		// recompute: state may differ from the last Alts call only through the scheduler itself
		op.Alts()
		if len(ready) == 0 {
			t.selIdx = -1
			return
		}
		i := ready[k]
		s.doCase(t, i, cases[i])
	}
	Point(op)
	if Killing() {
		return -1
	}
	return t.selIdx
}

// Got returns the value received by the preceding Select for a receive case on ch.
func Got[T any](ch <-chan T) T {
	var z T
	v, ok := gotVal()
	if !ok || v == nil {
		return z
	}
	return v.(T)
}

func Got2[T any](ch <-chan T) (T, bool) {
	var z T
	v, ok := gotVal()
	if !ok {
		return z, false
	}
	if v == nil {
		return z, true
	}
	return v.(T), true
}

func Send[T any](ch chan<- T, v T) {
	if Killing() {
		return
	}
	Select(false, SendCase(ch, v))
}

func Recv[T any](ch <-chan T) T {
	var z T
	if Killing() {
		return z
	}
	Select(false, RecvCase(ch))
	return Got(ch)
}

func Recv2[T any](ch <-chan T) (T, bool) {
	var z T
	if Killing() {
		return z, false
	}
	Select(false, RecvCase(ch))
	return Got2(ch)
}

func Close[T any](ch chan<- T) {
	closeChan(chanPtrS(ch), cap(ch), func() { close(ch) }, ch)
}

func closeChan(p uintptr, capacity int, realClose func(), ref any) {
	if Killing() {
		return
	}
	s := S
	c := s.chanOf(p, capacity, ref)
	Point(&Op{Kind: "close", Obj: c, Alts: func() int { return 1 }, Do: func(int) {
		if c == nil {
			panic("close of nil channel")
		}
		if c.closed {
			panic("close of closed channel")
		}
		c.closed = true
		RaceRelease(unsafe.Pointer(c))
		// wake receivers blocked in a rendezvous wait: they become enabled through caseReady
		func() {
			defer func() { _ = recover() }()
			realClose()
		}()
	}})
}

// MarkClosed marks a channel closed without a scheduling point (used by mcctx on cancel).
func MarkClosed[T any](ch chan T) {
	markClosed(chanPtr((<-chan T)(ch)), cap(ch), func() { close(ch) }, ch)
}

func markClosed(p uintptr, capacity int, realClose func(), ref any) {
	if Killing() {
		return
	}
	c := S.chanOf(p, capacity, ref)
	if !c.closed {
		c.closed = true
		o := S.fobjOf(c)
		o.hw, o.hr = mix(S.cur.h, 13), 0
		RaceRelease(unsafe.Pointer(c))
		func() {
			defer func() { _ = recover() }()
			realClose()
		}()
	}
}

func Len[T any](ch <-chan T) int { return chanLen(chanPtr(ch), cap(ch)) }

// Cap mirrors the builtin (capacity is static).
func Cap[T any](ch <-chan T) int { return cap(ch) }

func chanLen(p uintptr, capacity int) int {
	if Killing() {
		return 0
	}
	c := S.chanOf(p, capacity)
	if c == nil {
		return 0
	}
	return len(c.buf)
}
