// Package fakegrpc is a scheduler-visible model of the part of grpc-go that
// gorums uses: a client connection, and a bidirectional stream to a server
// endpoint that can crash, be reset and restart.
package fakegrpc

import (
	"context"
	"fmt"
	"io"

	"google.golang.org/grpc"
	"google.golang.org/grpc/codes"
	"google.golang.org/grpc/encoding"
	"google.golang.org/grpc/metadata"
	"google.golang.org/grpc/status"

	"unsafe"

	"verif/mc"
	"verif/mc/mcctx"
)

type DialOption = grpc.DialOption

// World is the per-execution transport state.
type World struct {
	Eps          map[string]*Endpoint
	Window       int
	BlockingDial bool
	Streams      []*Stream
	Conns        []*ClientConn
}

var W *World

func NewWorld(window int) *World {
	W = &World{Eps: map[string]*Endpoint{}, Window: window}
	return W
}

type Endpoint struct {
	Addr  string
	Up    bool
	Inc   int
	Serve func(inc int, ss grpc.ServerStream) error
}

func (w *World) AddEndpoint(addr string, up bool, serve func(inc int, ss grpc.ServerStream) error) *Endpoint {
	ep := &Endpoint{Addr: addr, Up: up, Serve: serve}
	w.Eps[addr] = ep
	return ep
}

// Crash stops the endpoint and breaks all its streams. Frames in flight are lost.
func (w *World) all() []any {
	out := []any{w}
	for _, st := range w.Streams {
		out = append(out, st)
	}
	for _, c := range w.Conns {
		out = append(out, c)
	}
	return out
}

func (st *Stream) objs() []any {
	out := []any{st}
	if o := mcctx.Obj(st.ctx); o != nil {
		out = append(out, o)
	}
	return out
}

func (w *World) Crash(addr string) {
	mc.YieldObjs("world.Crash", w.all())
	ep := w.Eps[addr]
	ep.Up = false
	for _, st := range w.Streams {
		if st.ep == ep {
			st.broken = true
		}
	}
}

// Reset breaks the endpoint's streams but leaves it up.
func (w *World) Reset(addr string) {
	mc.YieldObjs("world.Reset", w.all())
	for _, st := range w.Streams {
		if st.ep == w.Eps[addr] {
			st.broken = true
		}
	}
}

func (w *World) Restart(addr string) {
	mc.YieldObjs("world.Restart", w.all())
	ep := w.Eps[addr]
	ep.Up = true
	ep.Inc++
}

type ClientConn struct {
	addr   string
	closed bool
}

func DialContext(ctx context.Context, target string, opts ...DialOption) (*ClientConn, error) {
	mc.Yield("grpc.Dial", W)
	ep := W.Eps[target]
	if W.BlockingDial && (ep == nil || !ep.Up) {
		return nil, context.DeadlineExceeded
	}
	c := &ClientConn{addr: target}
	W.Conns = append(W.Conns, c)
	return c, nil
}

func (c *ClientConn) Close() error {
	mc.YieldObjs("grpc.ConnClose", W.all())
	if c.closed {
		return status.Error(codes.Canceled, "grpc: the client connection is closing")
	}
	c.closed = true
	return nil
}

func (c *ClientConn) Invoke(ctx context.Context, method string, args any, reply any, opts ...grpc.CallOption) error {
	return status.Error(codes.Unimplemented, "fakegrpc: unary calls are not modelled")
}

type Stream struct {
	ID      int
	ep      *Endpoint
	conn    *ClientConn
	ctx     context.Context // client stream context
	c2s     [][]byte
	s2c     [][]byte
	broken  bool
	c2sSync byte
	s2cSync byte
	srvDone bool
	srvErr  error
	Inc     int
	Addr    string
	MD      metadata.MD // metadata the server saw on this stream
	// counters for oracles
	C2SSent, C2SRecv, S2CSent, S2CRecv int
}

type streamKey struct{}

// StreamOf returns the transport stream a server-side context belongs to (nil if none).
func StreamOf(ctx context.Context) *Stream {
	st, _ := ctx.Value(streamKey{}).(*Stream)
	return st
}

// Broken reports whether the stream has been broken by a fault.
func (st *Stream) Broken() bool { return st.broken }

// Ended reports whether the stream can no longer carry data.
func (st *Stream) Ended() bool { return st.ended() }

// Pending returns the number of undelivered frames in each direction.
func (st *Stream) Pending() (c2s, s2c int) { return len(st.c2s), len(st.s2c) }

// ended: the stream can no longer carry data in either direction.
func (st *Stream) ended() bool {
	return st.broken || st.conn.closed || mcctx.Peek(st.ctx) != nil
}

func (c *ClientConn) NewStream(ctx context.Context, desc *grpc.StreamDesc, method string, opts ...grpc.CallOption) (grpc.ClientStream, error) {
	mc.YieldObjs("grpc.NewStream", W.all())
	if c.closed {
		return nil, status.Error(codes.Canceled, "grpc: the client connection is closing")
	}
	if err := mcctx.Peek(ctx); err != nil {
		return nil, status.FromContextError(err).Err()
	}
	ep := W.Eps[c.addr]
	if ep == nil || !ep.Up {
		return nil, status.Error(codes.Unavailable, "connection error: connection refused")
	}
	st := &Stream{ID: len(W.Streams), ep: ep, conn: c, ctx: ctx, Inc: ep.Inc, Addr: c.addr}
	W.Streams = append(W.Streams, st)
	sctx, scancel := mcctx.WithCancel(context.Background())
	sctx = context.WithValue(sctx, streamKey{}, st)
	if md, ok := metadata.FromOutgoingContext(ctx); ok {
		st.MD = md.Copy()
		sctx = metadata.NewIncomingContext(sctx, md.Copy())
	}
	ss := &serverStream{st: st, ctx: sctx}
	inc := ep.Inc
	mc.GoNamed(fmt.Sprintf("srv-stream%d", st.ID), func() {
		err := ep.Serve(inc, ss)
		mc.YieldObjs("grpc.srvReturn", st.objs())
		st.srvDone, st.srvErr = true, err
	})
	// the "network": propagates the end of the stream to the server's context
	mc.GoNamed(fmt.Sprintf("net-stream%d", st.ID), func() {
		mc.AwaitObjs("net.wait", st.objs(), func() bool { return st.ended() || st.srvDone })
		scancel()
	})
	return &clientStream{st: st}, nil
}

func codec() encoding.Codec {
	c := encoding.GetCodec("gorums")
	if c == nil {
		panic("fakegrpc: gorums codec not registered")
	}
	return c
}

type clientStream struct{ st *Stream }

func (cs *clientStream) Header() (metadata.MD, error) { return nil, nil }
func (cs *clientStream) Trailer() metadata.MD         { return nil }
func (cs *clientStream) CloseSend() error             { return nil }
func (cs *clientStream) Context() context.Context     { return cs.st.ctx }

func (cs *clientStream) SendMsg(m any) error {
	st := cs.st
	b, err := codec().Marshal(m)
	if err != nil {
		return status.Error(codes.Internal, err.Error())
	}
	mc.AwaitObjs("grpc.SendMsg", st.objs(), func() bool { return st.ended() || st.srvDone || len(st.c2s) < W.Window })
	mcctx.Acquire(st.ctx)
	if st.ended() || st.srvDone {
		return io.EOF
	}
	st.c2s = append(st.c2s, b)
	st.C2SSent++
	mc.RaceRelease(unsafe.Pointer(&st.c2sSync))
	return nil
}

func (cs *clientStream) RecvMsg(m any) error {
	st := cs.st
	mc.AwaitObjs("grpc.RecvMsg", st.objs(), func() bool { return st.ended() || st.srvDone || len(st.s2c) > 0 })
	mcctx.Acquire(st.ctx)
	switch {
	case mcctx.Peek(st.ctx) != nil:
		return status.FromContextError(mcctx.Peek(st.ctx)).Err()
	case st.conn.closed:
		// measured on grpc-go v1.62.1 (conformance/transport, script close-conn)
		return status.Error(codes.Unavailable, "transport is closing")
	case st.broken:
		return status.Error(codes.Unavailable, "error reading from server: EOF")
	case len(st.s2c) > 0:
		b := st.s2c[0]
		st.s2c = st.s2c[1:]
		st.S2CRecv++
		mc.RaceAcquire(unsafe.Pointer(&st.s2cSync))
		return codec().Unmarshal(b, m)
	default: // server handler returned
		if st.srvErr == nil {
			return io.EOF
		}
		return status.Convert(st.srvErr).Err()
	}
}

type serverStream struct {
	st  *Stream
	ctx context.Context
}

func (ss *serverStream) SetHeader(metadata.MD) error  { return nil }
func (ss *serverStream) SendHeader(metadata.MD) error { return nil }
func (ss *serverStream) SetTrailer(metadata.MD)       {}
func (ss *serverStream) Context() context.Context     { return ss.ctx }

func (ss *serverStream) SendMsg(m any) error {
	st := ss.st
	b, err := codec().Marshal(m)
	if err != nil {
		return status.Error(codes.Internal, err.Error())
	}
	mc.AwaitObjs("grpc.srvSendMsg", st.objs(), func() bool { return st.ended() || len(st.s2c) < W.Window })
	if st.ended() {
		return status.Error(codes.Unavailable, "transport is closing")
	}
	st.s2c = append(st.s2c, b)
	st.S2CSent++
	mc.RaceRelease(unsafe.Pointer(&st.s2cSync))
	return nil
}

func (ss *serverStream) RecvMsg(m any) error {
	st := ss.st
	mc.AwaitObjs("grpc.srvRecvMsg", st.objs(), func() bool { return st.ended() || len(st.c2s) > 0 })
	if st.ended() {
		return status.Error(codes.Canceled, "context canceled")
	}
	b := st.c2s[0]
	st.c2s = st.c2s[1:]
	st.C2SRecv++
	mc.RaceAcquire(unsafe.Pointer(&st.c2sSync))
	return codec().Unmarshal(b, m)
}

// InjectC2S places a raw frame in front of the server's decoder (hostile or corrupted client).
func (st *Stream) InjectC2S(b []byte) {
	mc.YieldObjs("net.inject", st.objs())
	st.c2s = append(st.c2s, b)
	mc.RaceRelease(unsafe.Pointer(&st.c2sSync))
}

// InjectS2C places a raw frame in front of the client's decoder.
func (st *Stream) InjectS2C(b []byte) {
	mc.YieldObjs("net.inject", st.objs())
	st.s2c = append(st.s2c, b)
	mc.RaceRelease(unsafe.Pointer(&st.s2cSync))
}

// Closed reports whether the client connection has been closed.
func (c *ClientConn) Closed() bool { return c.closed }
