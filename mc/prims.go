package mc

import (
	"time"
	"unsafe"
)

// Await blocks the calling thread until pred() is true. pred must read only
// state that changes under the scheduler.
func Await(kind string, obj any, pred func() bool) {
	if Killing() {
		return
	}
	Point(&Op{Kind: kind, Obj: obj, Alts: func() int {
		if pred() {
			return 1
		}
		return 0
	}, Do: func(int) {}})
}

// Yield is a plain scheduling point (a visible operation that is always enabled).
func Yield(kind string, obj any) {
	if Killing() {
		return
	}
	Point(&Op{Kind: kind, Obj: obj, Alts: func() int { return 1 }, Do: func(int) {}})
}

// Choose returns a value in [0,n) chosen by the explorer (free alternatives).
func Choose(n int) int {
	if Killing() || n <= 1 {
		return 0
	}
	r := 0
	Point(&Op{Kind: "choose", Free: true, Alts: func() int { return n }, Do: func(k int) { r = k }})
	return r
}

// Quiesce blocks until no other (non-idle) thread is enabled.
func Quiesce() {
	if Killing() {
		return
	}
	t := S.cur
	t.idle = true
	Point(&Op{Kind: "quiesce", Global: true, Alts: func() int { return 1 }, Do: func(int) {}})
	t.idle = false
	HarnessAcquire()
}

// hsync carries the happens-before edges of the harness's own bookkeeping in the race-oracle build: a
// script that acts on a call's return or on a server event has, in a real program, learnt about it through
// some synchronisation (a channel, a WaitGroup). HarnessRelease is announced where the harness publishes
// such an observation (call returned, server event logged); Quiesce acquires. Library-internal state gets
// no edge from this: only what the publishing thread did before it published.
var hsync int

func HarnessRelease() { RaceRelease(unsafe.Pointer(&hsync)) }
func HarnessAcquire() { RaceAcquire(unsafe.Pointer(&hsync)) }

// Timer is a virtual timer: it fires only when the scenario says so.
type Timer struct {
	C     chan time.Time
	Fired bool
	Tag   string
	Stop  bool
	Dur   time.Duration
	Owner string // name of the thread that armed it
}

func NewTimer(tag string, d time.Duration) *Timer {
	t := &Timer{C: make(chan time.Time), Tag: tag, Dur: d}
	if !Killing() {
		t.Owner = S.cur.Name
	}
	if !Killing() {
		S.timers = append(S.timers, t)
	}
	return t
}

// FireTimers fires every armed timer accepted by filter; returns how many fired.
func FireTimers(filter func(t *Timer) bool) int {
	if Killing() {
		return 0
	}
	n := 0
	for _, t := range S.timers {
		if !t.Fired && !t.Stop && (filter == nil || filter(t)) {
			t.Fired = true
			MarkClosed(t.C)
			n++
		}
	}
	return n
}

func PendingTimers() int {
	if Killing() {
		return 0
	}
	n := 0
	for _, t := range S.timers {
		if !t.Fired && !t.Stop {
			n++
		}
	}
	return n
}

// NoBranch switches branching off (true) or on (false) for a scenario phase.
func NoBranch(on bool) {
	if !Killing() {
		S.NoBranch = on
	}
}

// AwaitObjs / YieldObjs: variants that name every shared object the step depends on.
func AwaitObjs(kind string, objs []any, pred func() bool) {
	if Killing() {
		return
	}
	Point(&Op{Kind: kind, Objs: objs, Alts: func() int {
		if pred() {
			return 1
		}
		return 0
	}, Do: func(int) {}})
}

func YieldObjs(kind string, objs []any) {
	if Killing() {
		return
	}
	Point(&Op{Kind: kind, Objs: objs, Alts: func() int { return 1 }, Do: func(int) {}})
}

// ArmedTimers returns the timers that are armed and have not fired.
func ArmedTimers() []*Timer {
	if Killing() {
		return nil
	}
	var out []*Timer
	for _, t := range S.timers {
		if !t.Fired && !t.Stop {
			out = append(out, t)
		}
	}
	return out
}
