// Package mcsync mirrors the parts of package sync used by instrumented code.
package mcsync

import (
	"unsafe"

	"verif/mc"
)

type Locker interface {
	Lock()
	Unlock()
}

type Mutex struct {
	locked bool
}

func (m *Mutex) Lock() {
	if mc.Killing() {
		return
	}
	mc.Point(&mc.Op{Kind: "mutex.Lock", Obj: m, Alts: func() int {
		if m.locked {
			return 0
		}
		return 1
	}, Do: func(int) { m.locked = true; mc.RaceAcquire(unsafe.Pointer(m)) }})
}

func (m *Mutex) TryLock() bool {
	if mc.Killing() {
		return false
	}
	ok := false
	mc.Point(&mc.Op{Kind: "mutex.TryLock", Obj: m, Alts: func() int { return 1 }, Do: func(int) {
		if !m.locked {
			m.locked, ok = true, true
			mc.RaceAcquire(unsafe.Pointer(m))
		}
	}})
	return ok
}

func (m *Mutex) Unlock() {
	if mc.Killing() {
		return
	}
	mc.Point(&mc.Op{Kind: "mutex.Unlock", Obj: m, Alts: func() int { return 1 }, Do: func(int) {
		if !m.locked {
			panic("sync: unlock of unlocked mutex")
		}
		mc.RaceRelease(unsafe.Pointer(m))
		m.locked = false
	}})
}

// RWMutex follows Go's semantics: a writer first takes the internal writer
// mutex and announces itself (which blocks new readers), then waits for the
// active readers to leave.
type RWMutex struct {
	wHeld     bool
	announced bool
	readers   int
	rsync     byte
}

func (rw *RWMutex) RLock() {
	if mc.Killing() {
		return
	}
	mc.Point(&mc.Op{Kind: "rw.RLock", Obj: rw, Alts: func() int {
		if rw.announced {
			return 0
		}
		return 1
	}, Do: func(int) { rw.readers++; mc.RaceAcquire(unsafe.Pointer(rw)) }})
}

func (rw *RWMutex) RUnlock() {
	if mc.Killing() {
		return
	}
	mc.Point(&mc.Op{Kind: "rw.RUnlock", Obj: rw, Alts: func() int { return 1 }, Do: func(int) {
		if rw.readers <= 0 {
			panic("sync: RUnlock of unlocked RWMutex")
		}
		mc.RaceRelease(unsafe.Pointer(&rw.rsync))
		rw.readers--
	}})
}

func (rw *RWMutex) Lock() {
	if mc.Killing() {
		return
	}
	mc.Point(&mc.Op{Kind: "rw.Lock.announce", Obj: rw, Alts: func() int {
		if rw.wHeld {
			return 0
		}
		return 1
	}, Do: func(int) { rw.wHeld, rw.announced = true, true }})
	mc.Point(&mc.Op{Kind: "rw.Lock.acquire", Obj: rw, Alts: func() int {
		if rw.readers > 0 {
			return 0
		}
		return 1
	}, Do: func(int) { mc.RaceAcquire(unsafe.Pointer(rw)); mc.RaceAcquire(unsafe.Pointer(&rw.rsync)) }})
}

func (rw *RWMutex) TryLock() bool {
	if mc.Killing() {
		return false
	}
	ok := false
	mc.Point(&mc.Op{Kind: "rw.TryLock", Obj: rw, Alts: func() int { return 1 }, Do: func(int) {
		if !rw.wHeld && rw.readers == 0 {
			rw.wHeld, rw.announced, ok = true, true, true
			mc.RaceAcquire(unsafe.Pointer(rw))
			mc.RaceAcquire(unsafe.Pointer(&rw.rsync))
		}
	}})
	return ok
}

func (rw *RWMutex) Unlock() {
	if mc.Killing() {
		return
	}
	mc.Point(&mc.Op{Kind: "rw.Unlock", Obj: rw, Alts: func() int { return 1 }, Do: func(int) {
		if !rw.wHeld {
			panic("sync: Unlock of unlocked RWMutex")
		}
		mc.RaceRelease(unsafe.Pointer(rw))
		rw.wHeld, rw.announced = false, false
	}})
}

type Once struct {
	done    bool
	running bool
}

func (o *Once) Do(f func()) {
	if mc.Killing() {
		return
	}
	run := false
	mc.Point(&mc.Op{Kind: "once.Do", Obj: o, Alts: func() int {
		if o.running {
			return 0
		}
		return 1
	}, Do: func(int) {
		if !o.done {
			o.running, run = true, true
		} else {
			mc.RaceAcquire(unsafe.Pointer(o))
		}
	}})
	if run {
		defer func() {
			mc.RaceRelease(unsafe.Pointer(o))
			o.done, o.running = true, false
		}()
		f()
	}
}

type WaitGroup struct {
	n int
}

func (wg *WaitGroup) Add(d int) {
	if mc.Killing() {
		return
	}
	mc.Point(&mc.Op{Kind: "wg.Add", Obj: wg, Alts: func() int { return 1 }, Do: func(int) {
		wg.n += d
		if wg.n < 0 {
			panic("sync: negative WaitGroup counter")
		}
		mc.RaceRelease(unsafe.Pointer(wg))
	}})
}
func (wg *WaitGroup) Done() { wg.Add(-1) }
func (wg *WaitGroup) Wait() {
	if mc.Killing() {
		return
	}
	mc.Point(&mc.Op{Kind: "wg.Wait", Obj: wg, Alts: func() int {
		if wg.n > 0 {
			return 0
		}
		return 1
	}, Do: func(int) { mc.RaceAcquire(unsafe.Pointer(wg)) }})
}
