// Package mcsync mirrors the parts of package sync used by instrumented code.
package mcsync

import (
	"unsafe"

	"verif/mc"
)

type Locker interface {
	Lock()
	Unlock()
}

type Mutex struct {
	locked bool
	ep     uint32
}

// fresh resets a mutex that was last used in an earlier execution (a package-level variable).
func (m *Mutex) fresh() {
	if e := mc.Epoch(); m.ep != e {
		m.ep, m.locked = e, false
	}
}

func (m *Mutex) Lock() {
	if mc.Killing() {
		return
	}
	m.fresh()
	mc.Point(&mc.Op{Kind: "mutex.Lock", Obj: m, Alts: func() int {
		if m.locked {
			return 0
		}
		return 1
	}, Do: func(int) { m.locked = true; mc.RaceAcquire(unsafe.Pointer(m)) }})
}

func (m *Mutex) TryLock() bool {
	if mc.Killing() {
		return false
	}
	m.fresh()
	ok := false
	mc.Point(&mc.Op{Kind: "mutex.TryLock", Obj: m, Alts: func() int { return 1 }, Do: func(int) {
		if !m.locked {
			m.locked, ok = true, true
			mc.RaceAcquire(unsafe.Pointer(m))
		}
	}})
	return ok
}

func (m *Mutex) Unlock() {
	if mc.Killing() {
		return
	}
	m.fresh()
	mc.Point(&mc.Op{Kind: "mutex.Unlock", Obj: m, Alts: func() int { return 1 }, Do: func(int) {
		if !m.locked {
			panic("sync: unlock of unlocked mutex")
		}
		mc.RaceRelease(unsafe.Pointer(m))
		m.locked = false
	}})
}

// RWMutex follows Go's semantics: a writer first takes the internal writer
// mutex and announces itself (which blocks new readers), then waits for the
// active readers to leave.
type RWMutex struct {
	wHeld     bool
	announced bool
	readers   int
	rsync     byte
	ep        uint32
}

func (rw *RWMutex) fresh() {
	if e := mc.Epoch(); rw.ep != e {
		rw.ep, rw.wHeld, rw.announced, rw.readers = e, false, false, 0
	}
}

func (rw *RWMutex) RLock() {
	if mc.Killing() {
		return
	}
	rw.fresh()
	mc.Point(&mc.Op{Kind: "rw.RLock", Obj: rw, Alts: func() int {
		if rw.announced {
			return 0
		}
		return 1
	}, Do: func(int) { rw.readers++; mc.RaceAcquire(unsafe.Pointer(rw)) }})
}

func (rw *RWMutex) RUnlock() {
	if mc.Killing() {
		return
	}
	rw.fresh()
	mc.Point(&mc.Op{Kind: "rw.RUnlock", Obj: rw, Alts: func() int { return 1 }, Do: func(int) {
		if rw.readers <= 0 {
			panic("sync: RUnlock of unlocked RWMutex")
		}
		mc.RaceRelease(unsafe.Pointer(&rw.rsync))
		rw.readers--
	}})
}

func (rw *RWMutex) Lock() {
	if mc.Killing() {
		return
	}
	rw.fresh()
	mc.Point(&mc.Op{Kind: "rw.Lock.announce", Obj: rw, Alts: func() int {
		if rw.wHeld {
			return 0
		}
		return 1
	}, Do: func(int) { rw.wHeld, rw.announced = true, true }})
	mc.Point(&mc.Op{Kind: "rw.Lock.acquire", Obj: rw, Alts: func() int {
		if rw.readers > 0 {
			return 0
		}
		return 1
	}, Do: func(int) { mc.RaceAcquire(unsafe.Pointer(rw)); mc.RaceAcquire(unsafe.Pointer(&rw.rsync)) }})
}

func (rw *RWMutex) TryLock() bool {
	if mc.Killing() {
		return false
	}
	rw.fresh()
	ok := false
	mc.Point(&mc.Op{Kind: "rw.TryLock", Obj: rw, Alts: func() int { return 1 }, Do: func(int) {
		if !rw.wHeld && rw.readers == 0 {
			rw.wHeld, rw.announced, ok = true, true, true
			mc.RaceAcquire(unsafe.Pointer(rw))
			mc.RaceAcquire(unsafe.Pointer(&rw.rsync))
		}
	}})
	return ok
}

func (rw *RWMutex) Unlock() {
	if mc.Killing() {
		return
	}
	rw.fresh()
	mc.Point(&mc.Op{Kind: "rw.Unlock", Obj: rw, Alts: func() int { return 1 }, Do: func(int) {
		if !rw.wHeld {
			panic("sync: Unlock of unlocked RWMutex")
		}
		mc.RaceRelease(unsafe.Pointer(rw))
		rw.wHeld, rw.announced = false, false
	}})
}

type Once struct {
	done    bool
	running bool
	ep      uint32
}

func (o *Once) Do(f func()) {
	if mc.Killing() {
		return
	}
	if e := mc.Epoch(); o.ep != e {
		// a package-level Once starts every execution undone, so that executions do not depend on
		// which of them happened to run first in the process
		o.ep, o.done, o.running = e, false, false
	}
	run := false
	mc.Point(&mc.Op{Kind: "once.Do", Obj: o, Alts: func() int {
		if o.running {
			return 0
		}
		return 1
	}, Do: func(int) {
		if !o.done {
			o.running, run = true, true
		} else {
			mc.RaceAcquire(unsafe.Pointer(o))
		}
	}})
	if run {
		defer func() {
			mc.RaceRelease(unsafe.Pointer(o))
			o.done, o.running = true, false
		}()
		f()
	}
}

type WaitGroup struct {
	n int
}

func (wg *WaitGroup) Add(d int) {
	if mc.Killing() {
		return
	}
	mc.Point(&mc.Op{Kind: "wg.Add", Obj: wg, Alts: func() int { return 1 }, Do: func(int) {
		wg.n += d
		if wg.n < 0 {
			panic("sync: negative WaitGroup counter")
		}
		mc.RaceRelease(unsafe.Pointer(wg))
	}})
}
func (wg *WaitGroup) Done() { wg.Add(-1) }
func (wg *WaitGroup) Wait() {
	if mc.Killing() {
		return
	}
	mc.Point(&mc.Op{Kind: "wg.Wait", Obj: wg, Alts: func() int {
		if wg.n > 0 {
			return 0
		}
		return 1
	}, Do: func(int) { mc.RaceAcquire(unsafe.Pointer(wg)) }})
}

// Pool models sync.Pool: Get returns the most recently Put item (default alternative: maximal
// reuse, which is what exposes aliasing bugs) or, as a free alternative, a fresh one.
type Pool struct {
	New   func() any
	items []any
	ep    uint32
}

func (p *Pool) fresh() {
	if e := mc.Epoch(); p.ep != e {
		p.ep, p.items = e, nil
	}
}

func (p *Pool) Get() any {
	if mc.Killing() {
		if p.New != nil {
			return p.New()
		}
		return nil
	}
	p.fresh()
	var x any
	got := false
	// alternative 0 reuses the most recently Put item, alternative 1 (free) models the pool having dropped it
	mc.Point(&mc.Op{Kind: "pool.Get", Obj: p, Free: true, Alts: func() int {
		if len(p.items) > 0 {
			return 2
		}
		return 1
	}, Do: func(k int) {
		if n := len(p.items); n > 0 && k == 0 {
			x, got = p.items[n-1], true
			p.items = p.items[:n-1]
			mc.RaceAcquire(unsafe.Pointer(p))
		}
	}})
	if !got && p.New != nil {
		return p.New()
	}
	return x
}

func (p *Pool) Put(x any) {
	if mc.Killing() || x == nil {
		return
	}
	p.fresh()
	mc.Point(&mc.Op{Kind: "pool.Put", Obj: p, Alts: func() int { return 1 }, Do: func(int) {
		mc.RaceRelease(unsafe.Pointer(p))
		p.items = append(p.items, x)
	}})
}

// Map models sync.Map with a slice of entries (every method is one visible operation).
type Map struct {
	keys []any
	vals []any
	ep   uint32
}

// fresh empties a map that was last used in an earlier execution (a package-level variable).
func (m *Map) fresh() {
	if e := mc.Epoch(); m.ep != e {
		m.ep, m.keys, m.vals = e, nil, nil
	}
}

func (m *Map) find(k any) int {
	for i, x := range m.keys {
		if x == k {
			return i
		}
	}
	return -1
}

func (m *Map) op(kind string, f func()) {
	if !mc.Killing() {
		m.fresh()
	}
	if mc.Killing() {
		f()
		return
	}
	mc.Point(&mc.Op{Kind: kind, Obj: m, Alts: func() int { return 1 }, Do: func(int) {
		mc.RaceAcquire(unsafe.Pointer(m))
		f()
		mc.RaceRelease(unsafe.Pointer(m))
	}})
}

func (m *Map) Load(k any) (v any, ok bool) {
	m.op("map.Load", func() {
		if i := m.find(k); i >= 0 {
			v, ok = m.vals[i], true
		}
	})
	return
}

func (m *Map) Store(k, v any) {
	m.op("map.Store", func() {
		if i := m.find(k); i >= 0 {
			m.vals[i] = v
		} else {
			m.keys, m.vals = append(m.keys, k), append(m.vals, v)
		}
	})
}

func (m *Map) LoadOrStore(k, v any) (actual any, loaded bool) {
	m.op("map.LoadOrStore", func() {
		if i := m.find(k); i >= 0 {
			actual, loaded = m.vals[i], true
		} else {
			m.keys, m.vals = append(m.keys, k), append(m.vals, v)
			actual = v
		}
	})
	return
}

func (m *Map) LoadAndDelete(k any) (v any, loaded bool) {
	m.op("map.LoadAndDelete", func() {
		if i := m.find(k); i >= 0 {
			v, loaded = m.vals[i], true
			m.keys = append(m.keys[:i:i], m.keys[i+1:]...)
			m.vals = append(m.vals[:i:i], m.vals[i+1:]...)
		}
	})
	return
}

func (m *Map) Delete(k any) { m.LoadAndDelete(k) }

func (m *Map) Swap(k, v any) (prev any, loaded bool) {
	m.op("map.Swap", func() {
		if i := m.find(k); i >= 0 {
			prev, loaded = m.vals[i], true
			m.vals[i] = v
		} else {
			m.keys, m.vals = append(m.keys, k), append(m.vals, v)
		}
	})
	return
}

func (m *Map) CompareAndSwap(k, old, new any) (ok bool) {
	m.op("map.CAS", func() {
		if i := m.find(k); i >= 0 && m.vals[i] == old {
			m.vals[i], ok = new, true
		}
	})
	return
}

func (m *Map) CompareAndDelete(k, old any) (ok bool) {
	m.op("map.CAD", func() {
		if i := m.find(k); i >= 0 && m.vals[i] == old {
			m.keys = append(m.keys[:i:i], m.keys[i+1:]...)
			m.vals = append(m.vals[:i:i], m.vals[i+1:]...)
			ok = true
		}
	})
	return
}

func (m *Map) Range(f func(k, v any) bool) {
	var ks, vs []any
	m.op("map.Range", func() {
		ks, vs = append(ks, m.keys...), append(vs, m.vals...)
	})
	for i := range ks {
		if !f(ks[i], vs[i]) {
			return
		}
	}
}

// Cond models sync.Cond.
type Cond struct {
	L       Locker
	waiters int
	tickets int
}

func NewCond(l Locker) *Cond { return &Cond{L: l} }

func (c *Cond) Wait() {
	if mc.Killing() {
		return
	}
	mc.Point(&mc.Op{Kind: "cond.enqueue", Obj: c, Alts: func() int { return 1 }, Do: func(int) { c.waiters++ }})
	c.L.Unlock()
	mc.Point(&mc.Op{Kind: "cond.Wait", Obj: c, Alts: func() int {
		if c.tickets > 0 {
			return 1
		}
		return 0
	}, Do: func(int) { c.tickets--; mc.RaceAcquire(unsafe.Pointer(c)) }})
	c.L.Lock()
}

func (c *Cond) Signal() {
	if mc.Killing() {
		return
	}
	mc.Point(&mc.Op{Kind: "cond.Signal", Obj: c, Alts: func() int { return 1 }, Do: func(int) {
		mc.RaceRelease(unsafe.Pointer(c))
		if c.waiters > 0 {
			c.waiters--
			c.tickets++
		}
	}})
}

func (c *Cond) Broadcast() {
	if mc.Killing() {
		return
	}
	mc.Point(&mc.Op{Kind: "cond.Broadcast", Obj: c, Alts: func() int { return 1 }, Do: func(int) {
		mc.RaceRelease(unsafe.Pointer(c))
		c.tickets += c.waiters
		c.waiters = 0
	}})
}

// OnceFunc / OnceValue mirror the helpers added in go1.21.
func OnceFunc(f func()) func() {
	var o Once
	return func() { o.Do(f) }
}

func OnceValue[T any](f func() T) func() T {
	var o Once
	var v T
	return func() T {
		o.Do(func() { v = f() })
		return v
	}
}

func (rw *RWMutex) TryRLock() bool {
	if mc.Killing() {
		return false
	}
	ok := false
	mc.Point(&mc.Op{Kind: "rw.TryRLock", Obj: rw, Alts: func() int { return 1 }, Do: func(int) {
		if !rw.announced {
			rw.readers++
			ok = true
			mc.RaceAcquire(unsafe.Pointer(rw))
		}
	}})
	return ok
}

// RLocker returns a Locker whose Lock/Unlock call RLock/RUnlock.
func (rw *RWMutex) RLocker() Locker { return (*rlocker)(rw) }

type rlocker RWMutex

func (r *rlocker) Lock()   { (*RWMutex)(r).RLock() }
func (r *rlocker) Unlock() { (*RWMutex)(r).RUnlock() }

func (wg *WaitGroup) Go(f func()) {
	wg.Add(1)
	mc.Go(func() {
		defer wg.Done()
		f()
	})
}
