package mc

import (
	"fmt"
	"time"
)

// Result summarises an exploration.
type Result struct {
	Execs      int
	Steps      int
	Points     int
	MaxAlts    int
	MaxThreads int
	States     int
	Violations []Found
	ViolExecs  int
	CapHits    int
	Outcomes   map[string]int
	Elapsed    time.Duration
	Complete   bool
	Pruned     int
	Histories  int // distinct harness-visible event histories (Observe)
	Sample     *Found // first execution, as an example of what was explored
}

// Found is one execution worth keeping: its choice list and what was observed.
type Found struct {
	Choices []int
	Viol    []Violation
	Blocked []string
	Outcome string
	Devs    int
}

// Explorer enumerates every schedule of Root within Bound deviations.
type Explorer struct {
	Root func()
	// End is called (outside the scheduler) after each execution to evaluate end-of-run oracles.
	End         func(s *Sched)
	Bound       int
	MaxSteps    int
	Deadline    time.Time
	StopAtFirst bool
	UseCache    bool
	MaxViol     int // distinct (rule,key) violations kept
	seen        map[uint64]int16
	vseen       map[string]bool
	hseen       map[uint64]struct{}
	Res         Result
}

func (e *Explorer) Explore() *Result {
	e.Res.Outcomes = map[string]int{}
	e.seen = map[uint64]int16{}
	e.vseen = map[string]bool{}
	e.hseen = map[uint64]struct{}{}
	if e.MaxSteps == 0 {
		e.MaxSteps = 20000
	}
	if e.MaxViol == 0 {
		e.MaxViol = 20
	}
	t0 := time.Now()
	e.Res.Complete = true
	e.explore(nil, 0)
	e.Res.Elapsed = time.Since(t0)
	e.Res.States = len(e.seen)
	e.Res.Histories = len(e.hseen)
	return &e.Res
}

func (e *Explorer) explore(prefix []int, used int) {
	if !e.Deadline.IsZero() && time.Now().After(e.Deadline) {
		e.Res.Complete = false
		return
	}
	if e.StopAtFirst && len(e.Res.Violations) > 0 {
		return
	}
	s := Run(e.Root, prefix, e.MaxSteps, false)
	if s.Diverged != "" {
		panic(fmt.Sprintf("gomc: replay divergence (nondeterminism not captured): %s prefix=%v", s.Diverged, prefix))
	}
	e.Res.Execs++
	e.Res.Steps += s.Steps
	e.Res.Points += len(s.Points)
	if len(s.threads) > e.Res.MaxThreads {
		e.Res.MaxThreads = len(s.threads)
	}
	if s.CapHit {
		e.Res.CapHits++
	}
	if e.End != nil {
		S = s
		s.killing = false
		e.End(s)
		s.killing = true
		S = nil
	}
	e.Res.Outcomes[s.OutcomeStr]++
	e.hseen[mix(s.Obs, hashStr(s.OutcomeStr))] = struct{}{}
	choices := make([]int, len(s.Points))
	for i, p := range s.Points {
		choices[i] = p.Chosen
		if p.N > e.Res.MaxAlts {
			e.Res.MaxAlts = p.N
		}
	}
	if e.Res.Sample == nil {
		e.Res.Sample = &Found{Choices: choices, Outcome: s.OutcomeStr}
	}
	if len(s.Viol) > 0 {
		e.Res.ViolExecs++
		var fresh []Violation
		for _, v := range s.Viol {
			k := v.Rule + "|" + v.Key
			if !e.vseen[k] {
				e.vseen[k] = true
				fresh = append(fresh, v)
			}
		}
		if len(fresh) > 0 && len(e.Res.Violations) < e.MaxViol {
			e.Res.Violations = append(e.Res.Violations, Found{Choices: choices, Viol: fresh, Blocked: s.Blocked(), Outcome: s.OutcomeStr, Devs: used})
		}
	}
	cost := used
	pts := s.Points
	for i := len(prefix); i < len(pts); i++ {
		p := pts[i]
		rem := int16(e.Bound - cost + 1)
		if e.seen[p.FP] >= rem {
			if e.UseCache {
				e.Res.Pruned++
				break // this state and everything after it on this path was expanded with at least this budget
			}
		} else {
			e.seen[p.FP] = rem
		}
		for a := 1; a < p.N; a++ {
			c := cost + p.Cost[a]
			if c > e.Bound {
				continue
			}
			np := append(append([]int{}, choices[:i]...), a)
			e.explore(np, c)
		}
		cost += p.Cost[p.Chosen]
	}
}

// Replay runs one recorded schedule with logging on and returns the scheduler state.
func Replay(root func(), choices []int, maxSteps int) *Sched {
	if maxSteps == 0 {
		maxSteps = 20000
	}
	return Run(root, choices, maxSteps, true)
}
