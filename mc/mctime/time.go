// Package mctime replaces the blocking functions of package time by virtual timers
// that fire only when a scenario fires them.
package mctime

import (
	"time"

	"verif/mc"
)

func After(d time.Duration) <-chan time.Time {
	return mc.NewTimer("time.After", d).C
}

func Sleep(d time.Duration) {
	t := mc.NewTimer("time.Sleep", d)
	mc.Recv((<-chan time.Time)(t.C))
}

// Timer mirrors time.Timer on top of a virtual timer.
type Timer struct {
	C <-chan time.Time
	t *mc.Timer
	f func()
}

func NewTimer(d time.Duration) *Timer {
	t := mc.NewTimer("time.NewTimer", d)
	return &Timer{C: t.C, t: t}
}

func AfterFunc(d time.Duration, f func()) *Timer {
	t := mc.NewTimer("time.AfterFunc", d)
	tm := &Timer{t: t, f: f}
	mc.Go(func() {
		mc.Recv((<-chan time.Time)(t.C))
		if !mc.Killing() && !tm.t.Stop {
			f()
		}
	})
	return tm
}

// Stop prevents the virtual timer from firing; reports whether it was still armed.
func (t *Timer) Stop() bool {
	mc.Yield("timer.Stop", t.t)
	was := !t.t.Fired && !t.t.Stop
	t.t.Stop = true
	return was
}

// Reset re-arms the timer with a fresh virtual timer.
func (t *Timer) Reset(d time.Duration) bool {
	was := t.Stop()
	n := mc.NewTimer("time.Reset", d)
	t.t = n
	if t.f == nil {
		t.C = n.C
	} else {
		f := t.f
		mc.Go(func() {
			mc.Recv((<-chan time.Time)(n.C))
			if !mc.Killing() && !n.Stop {
				f()
			}
		})
	}
	return was
}

// Ticker mirrors time.Ticker; a virtual ticker ticks once each time its timer is fired.
type Ticker struct {
	C <-chan time.Time
	t *mc.Timer
}

func NewTicker(d time.Duration) *Ticker {
	t := mc.NewTimer("time.NewTicker", d)
	return &Ticker{C: t.C, t: t}
}

func (t *Ticker) Stop()                 { t.t.Stop = true }
func (t *Ticker) Reset(d time.Duration) {}

func Tick(d time.Duration) <-chan time.Time { return NewTicker(d).C }
