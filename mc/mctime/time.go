// Package mctime replaces the blocking functions of package time by virtual timers.
package mctime

import (
	"time"

	"verif/mc"
)

func After(d time.Duration) <-chan time.Time {
	return mc.NewTimer("time.After", d).C
}

func Sleep(d time.Duration) {
	t := mc.NewTimer("time.Sleep", d)
	mc.Recv((<-chan time.Time)(t.C))
}
