// Package mc is the runtime of the gomc explorer: a cooperative scheduler under
// which exactly one managed thread runs at a time and every visible operation
// is a scheduling point decided by a choice list.
package mc

import (
	"fmt"
	"os"
	"runtime"
	"runtime/debug"
	"strings"
	"sync"
	"sync/atomic"
	"time"
)

// Op is a visible operation a thread is about to perform.
type Op struct {
	Kind string
	Obj  any
	// Alts reports how many alternatives are enabled (0 = blocked).
	Alts func() int
	// Do performs alternative k. It runs in the thread that owns the op,
	// or - for rendezvous - in the partner (then Done must be set).
	Do func(k int)
	// Free alternatives (select tie-breaks, Choose) cost no deviation.
	Free bool
	// Resume runs in the owning thread when the op was completed on its behalf.
	Resume func()
	// Objs are the shared objects the op depends on (default: Obj); RO marks a pure read.
	Objs   []any
	RO     bool
	Global bool // depends on everything (Quiesce, world-wide faults)
}

type Thread struct {
	ID      int
	Name    string
	wake    chan struct{}
	pending *Op
	chosen  int
	// opDone: pending op was completed on this thread's behalf (rendezvous partner).
	opDone bool
	done   bool
	idle   bool // pending op is Quiesce: only when nothing else is enabled
	// Low marks an adversary thread of a scenario (a Close, cancel, fault or timer thread): by default it runs
	// only when no ordinary thread is enabled, and scheduling it at any earlier point costs one deviation; once
	// running it continues like any other thread until it blocks. "At every instant" then means one deviation.
	Low     bool
	killed  bool
	started bool
	fn      func()
	// values handed over by channel operations
	recvVal any
	recvOK  bool
	selIdx  int
	Site    string
	// happens-before fingerprint
	ident  uint64
	h      uint64
	spawns uint64
}

type fobj struct {
	p  any
	hw uint64
	hr uint64
}

func mix(a, b uint64) uint64 {
	x := a ^ (b + 0x9e3779b97f4a7c15 + (a << 6) + (a >> 2))
	x ^= x >> 33
	x *= 0xff51afd7ed558ccd
	x ^= x >> 33
	x *= 0xc4ceb9fe1a85ec53
	x ^= x >> 33
	return x
}

func hashStr(s string) uint64 {
	var h uint64 = 14695981039346656037
	for i := 0; i < len(s); i++ {
		h ^= uint64(s[i])
		h *= 1099511628211
	}
	return h
}

func (s *Sched) fobjOf(p any) *fobj {
	for _, o := range s.fobjs {
		if o.p == p {
			return o
		}
	}
	o := &fobj{p: p}
	s.fobjs = append(s.fobjs, o)
	return o
}

// record folds the execution of alternative k of u's pending op into the fingerprint.
func (s *Sched) record(u *Thread, k int) {
	if s.NoBranch {
		// deterministic phase: identical in every execution that reaches it from the same state
		return
	}
	op := u.pending
	if op == nil || u.opDone {
		u.h = mix(u.h, 1)
		return
	}
	x := mix(mix(u.h, hashStr(op.Kind)), uint64(k))
	if op.Global {
		for _, v := range s.order {
			x = mix(x, mix(v.ident, v.h))
		}
	}
	objs := op.Objs
	if objs == nil && op.Obj != nil {
		if cs, ok := op.Obj.([]Case); ok {
			for _, c := range cs {
				if c.c != nil {
					objs = append(objs, c.c)
				}
			}
		} else {
			objs = []any{op.Obj}
		}
	}
	fo := make([]*fobj, len(objs))
	for i, p := range objs {
		fo[i] = s.fobjOf(p)
		x = mix(x, fo[i].hw)
		if !op.RO {
			x = mix(x, fo[i].hr)
		}
	}
	u.h = x
	s.lastX = x
	for i, o := range fo {
		if op.RO {
			o.hr += mix(x, 7)
		} else {
			o.hw = mix(x, uint64(i)+11)
			o.hr = 0
		}
	}
}

// Fingerprint of the global state (threads in canonical order + running thread).
func (s *Sched) fingerprint(cur *Thread) uint64 {
	x := mix(cur.ident, 3)
	for _, v := range s.order {
		f := uint64(0)
		if v.done {
			f |= 1
		}
		if v.opDone {
			f |= 2
		}
		if v.idle {
			f |= 4
		}
		x = mix(x, mix(mix(v.ident, v.h), f))
	}
	for _, tm := range s.timers {
		if tm.Fired {
			x = mix(x, 99)
		} else {
			x = mix(x, 98)
		}
	}
	return x
}

func (s *Sched) insertOrdered(t *Thread) {
	i := len(s.order)
	s.order = append(s.order, t)
	for i > 0 && s.order[i-1].ident > t.ident {
		s.order[i] = s.order[i-1]
		i--
	}
	s.order[i] = t
}

// ChoicePoint records one decision of an execution.
type ChoicePoint struct {
	N      int   // number of alternatives
	Chosen int   // index taken
	Cost   []int // deviation cost of each alternative
	FP     uint64
}

type Violation struct {
	Rule string // property/rule, e.g. "C02/return-iff"
	Key  string // short canonical detail that identifies the failing site/input class (known-finding key)
	Msg  string
}

type Sched struct {
	threads []*Thread
	cur     *Thread
	prefix  []int
	Points  []ChoicePoint
	Steps   int
	MaxStep int
	fin     chan struct{}
	exited  chan struct{}
	killing bool
	Viol    []Violation
	Log     []string
	LogOn   bool
	// per-execution side tables
	chanList   []*chanState
	fobjs      []*fobj
	order      []*Thread
	lastX      uint64
	NoBranch   bool
	Obs        uint64 // order-sensitive hash of the harness-visible events of this execution
	advMode    int // 0 undecided, 1 lazy adversaries, 2 eager adversaries
	timers     []*Timer
	Diverged   string
	CapHit     bool
	OutcomeStr string
}

var S *Sched

// Current returns the running thread.
func Current() *Thread { return S.cur }

// Killing reports whether the execution is being torn down.
func Killing() bool { return S == nil || S.killing }

func (s *Sched) logf(format string, a ...any) {
	if s.LogOn {
		s.Log = append(s.Log, fmt.Sprintf("t%d ", s.cur.ID)+fmt.Sprintf(format, a...))
	}
}

// Logf appends to the deterministic event log.
func Logf(format string, a ...any) {
	if Killing() {
		return
	}
	S.logf(format, a...)
}

// Fail records an oracle violation.
func Fail(rule, format string, a ...any) {
	FailKey(rule, "", format, a...)
}

// FailKey records an oracle violation with a known-finding key.
func FailKey(rule, key, format string, a ...any) {
	if Killing() {
		return
	}
	S.Viol = append(S.Viol, Violation{Rule: rule, Key: key, Msg: fmt.Sprintf(format, a...)})
}

// Outcome sets (appends to) the oracle-relevant summary of this execution.
func Outcome(format string, a ...any) {
	if Killing() {
		return
	}
	if S.OutcomeStr != "" {
		S.OutcomeStr += ";"
	}
	S.OutcomeStr += fmt.Sprintf(format, a...)
}

// Observe folds a harness-visible event (a server event, a call's return) into the execution's history
// hash, in the order in which the events happen. The explorer counts the distinct histories it has seen:
// a non-vacuity measure (many executions with one history means nothing interleaved differently).
func Observe(s string) {
	if Killing() {
		return
	}
	S.Obs = mix(S.Obs, hashStr(s))
}

// Note folds a harness observation into the running thread's fingerprint chain.
func Note(x uint64) {
	if Killing() {
		return
	}
	S.cur.h = mix(S.cur.h, x)
}

// NoteStr is Note for strings.
func NoteStr(s string) { Note(hashStr(s)) }

// Go starts fn as a new managed thread.
func Go(fn func()) { GoNamed("", fn) }

// GoLow starts fn as an adversary thread: see Thread.Low. Whether the adversaries of an execution are lazy
// (low priority: they strike at quiescence by default, any earlier instant costs one deviation) or eager
// (ordinary threads: they strike as early as the round-robin allows, later instants cost deviations) is a
// free choice made once per execution, at its first adversary; both families are explored at every bound.
func GoLow(name string, fn func()) *Thread {
	if Killing() {
		return nil
	}
	s := S
	if s.advMode == 0 {
		s.advMode = 1 + Choose(2)
	}
	t := GoNamed(name, fn)
	if t != nil && s.advMode == 1 {
		t.Low = true
	}
	return t
}

func GoNamed(name string, fn func()) *Thread {
	if Killing() {
		return nil
	}
	s := S
	t := &Thread{ID: len(s.threads), Name: name, wake: make(chan struct{}, 1), fn: fn}
	if name == "" {
		t.Name = callerSite(3)
	}
	p := s.cur
	p.spawns++
	t.ident = mix(p.ident, p.spawns)
	t.h = mix(p.h, p.spawns)
	s.threads = append(s.threads, t)
	s.insertOrdered(t)
	t.pending = &Op{Kind: "start", Alts: func() int { return 1 }, Do: func(int) {}}
	go t.run(s)
	return t
}

func callerSite(skip int) string {
	pc, _, _, ok := runtime.Caller(skip)
	if !ok {
		return "?"
	}
	f := runtime.FuncForPC(pc)
	if f == nil {
		return "?"
	}
	n := f.Name()
	if i := strings.LastIndex(n, "/"); i >= 0 {
		n = n[i+1:]
	}
	return n
}

func (t *Thread) run(s *Sched) {
	raceDisable()
	<-t.wake
	raceEnable()
	defer func() {
		if r := recover(); r != nil && !s.killing {
			st := string(debug.Stack())
			s.Viol = append(s.Viol, Violation{Rule: "panic", Key: panicSite(st), Msg: fmt.Sprintf("thread %d (%s): %v\n%s", t.ID, t.Name, r, st)})
			t.done = true
			// abort the execution
			s.finish()
			return
		}
		if s.killing {
			s.exited <- struct{}{}
			return
		}
		t.done = true
		t.pending = nil
		s.dispatch(t, true)
	}()
	if t.killed {
		return
	}
	t.started = true
	t.pending = nil
	t.fn()
}

// panicSite extracts the function that panicked from a stack dump taken in a deferred recover.
func panicSite(st string) string {
	lines := strings.Split(st, "\n")
	for i, l := range lines {
		if strings.HasPrefix(l, "panic(") {
			for j := i + 2; j < len(lines); j += 2 {
				f := lines[j]
				if k := strings.LastIndex(f, "("); k > 0 {
					f = f[:k]
				}
				if k := strings.LastIndex(f, "/"); k >= 0 {
					f = f[k+1:]
				}
				if strings.HasPrefix(f, "runtime.") || strings.HasPrefix(f, "mc.") || strings.HasPrefix(f, "mcsync.") || f == "" {
					continue
				}
				return f
			}
		}
	}
	return "?"
}

func (s *Sched) finish() {
	raceDisable()
	s.fin <- struct{}{}
	raceEnable()
}

type alt struct {
	t    *Thread
	k    int
	cost int
}

// Point is called by thread t (the running thread) before visible operation op.
func Point(op *Op) {
	s := S
	if s == nil || s.killing {
		return
	}
	t := s.cur
	t.pending = op
	t.opDone = false
	if s.NoBranch && !t.idle && s.Steps < s.MaxStep && op.Alts() > 0 {
		// deterministic phase: the default choice is "the running thread continues", no choice point and
		// no fingerprint are recorded, so the other threads need not be examined
		s.Steps++
		atomic.AddUint64(&wdProgress, 1)
		t.chosen = 0
		s.perform(t)
		return
	}
	s.dispatch(t, false)
}

// dispatch picks the next (thread, alternative) and transfers control.
// exiting: t has finished and will not be resumed.
func (s *Sched) dispatch(t *Thread, exiting bool) {
	s.Steps++
	atomic.AddUint64(&wdProgress, 1)
	if s.Steps > s.MaxStep {
		s.CapHit = true
		s.finishFrom(t, exiting)
		return
	}
	alts := s.enabled(t)
	if len(alts) == 0 {
		s.finishFrom(t, exiting)
		return
	}
	pick := 0
	if len(alts) > 1 && !s.NoBranch {
		i := len(s.Points)
		if i < len(s.prefix) {
			pick = s.prefix[i]
			if pick >= len(alts) {
				s.Diverged = fmt.Sprintf("choice point %d: prefix wants %d of %d", i, pick, len(alts))
				s.finishFrom(t, exiting)
				return
			}
		}
		cp := ChoicePoint{N: len(alts), Chosen: pick, Cost: make([]int, len(alts)), FP: s.fingerprint(t)}
		for j, a := range alts {
			cp.Cost[j] = a.cost
		}
		s.Points = append(s.Points, cp)
	}
	a := alts[pick]
	u := a.t
	u.chosen = a.k
	s.record(u, a.k)
	if u == t && !exiting {
		s.perform(u)
		return
	}
	s.cur = u
	raceDisable()
	u.wake <- struct{}{}
	if exiting {
		raceEnable()
		return
	}
	<-t.wake
	raceEnable()
	if t.killed {
		runtime.Goexit()
	}
	s.perform(t)
}

// perform runs the chosen alternative of t's pending op (t is now running).
func (s *Sched) perform(t *Thread) {
	op := t.pending
	if op == nil || t.opDone {
		if op != nil && op.Resume != nil {
			op.Resume()
		}
		t.pending = nil
		t.opDone = false
		return
	}
	t.pending = nil
	if s.LogOn {
		s.logf("%s#%d", op.Kind, t.chosen)
	}
	op.Do(t.chosen)
}

func (s *Sched) finishFrom(t *Thread, exiting bool) {
	s.finish()
	if exiting {
		return
	}
	raceDisable()
	<-t.wake
	raceEnable()
	runtime.Goexit()
}

// enabled lists alternatives in canonical order: running thread first (if it can
// continue), then the other threads in round-robin order after it. Idle threads
// are considered only if no other alternative exists.
func (s *Sched) enabled(t *Thread) []alt {
	var out []alt
	n := len(s.threads)
	// scheduling class: 0 ordinary (and the running thread), 1 low priority, 2 idle (Quiesce)
	class := func(u *Thread) int {
		switch {
		case u.idle:
			return 2
		case u.Low && u != t:
			return 1
		}
		return 0
	}
	add := func(u *Thread, cl int) {
		if u.done || class(u) != cl {
			return
		}
		k := 1
		if u.pending != nil && !u.opDone {
			k = u.pending.Alts()
		}
		for j := 0; j < k; j++ {
			c := 1
			if len(out) == 0 || out[0].t == u {
				c = 0
			}
			out = append(out, alt{u, j, c})
		}
	}
	pos := 0
	for i, u := range s.order {
		if u == t {
			pos = i
		}
	}
	for pass := 0; pass < 3 && len(out) == 0; pass++ {
		for i := 0; i < n; i++ {
			u := s.order[(pos+i)%n]
			add(u, pass)
		}
		if pass == 0 && len(out) > 0 {
			// low-priority threads are never the default while an ordinary thread is enabled, but they
			// are alternatives (at the cost of one deviation) at every choice point
			for i := 0; i < n; i++ {
				add(s.order[(pos+i)%n], 1)
			}
		}
	}
	return out
}

var (
	wdProgress uint64
	wdOnce     sync.Once
	// WatchdogSeconds is the wall time without a scheduling point after which the process gives up.
	WatchdogSeconds = 60
)

func startWatchdog() {
	go func() {
		last, idle := uint64(0), 0
		for {
			time.Sleep(time.Second)
			cur := atomic.LoadUint64(&wdProgress)
			if cur == last && atomic.LoadInt32(&wdActive) == 1 {
				idle++
				if idle >= WatchdogSeconds {
					buf := make([]byte, 1<<20)
					n := runtime.Stack(buf, true)
					fmt.Fprintf(os.Stderr, "UNCONTROLLED: no scheduling point for %d s; a thread blocks outside the scheduler\n%s\n", idle, buf[:n])
					os.Exit(3)
				}
			} else {
				idle = 0
			}
			last = cur
		}
	}()
}

var wdActive int32

// Run executes one execution of root under the given choice prefix.
func Run(root func(), prefix []int, maxSteps int, logOn bool) *Sched {
	wdOnce.Do(startWatchdog)
	atomic.StoreInt32(&wdActive, 1)
	defer atomic.StoreInt32(&wdActive, 0)
	epoch++
	s := &Sched{prefix: prefix, MaxStep: maxSteps, fin: make(chan struct{}, 1), exited: make(chan struct{}, 64), LogOn: logOn}
	S = s
	t := &Thread{ID: 0, Name: "root", wake: make(chan struct{}, 1), fn: root, ident: 1}
	s.threads = append(s.threads, t)
	s.order = append(s.order, t)
	s.cur = t
	go t.run(s)
	raceDisable()
	t.wake <- struct{}{}
	<-s.fin
	if BeforeTeardown != nil {
		BeforeTeardown()
	}
	// tear down: kill every thread that has not finished, one at a time
	s.killing = true
	for _, u := range s.threads {
		if u.done {
			continue
		}
		u.killed = true
		u.wake <- struct{}{}
		<-s.exited
	}
	raceEnable()
	S = nil
	return s
}

var epoch uint32

// Epoch identifies the current execution. Modelled primitives that live in package-level variables of the
// code under test (a global sync.Pool or mutex) compare it with the epoch they last saw and start every
// execution in their zero state; otherwise what one execution leaves behind would leak into the next and
// executions would not be functions of their choice lists.
func Epoch() uint32 { return epoch }

// BeforeTeardown is called when an execution has ended, before its unfinished threads are killed. Killed
// threads run their deferred functions with the modelled primitives switched off, so what a per-execution
// observer (the race log) sees after this point says nothing about the program.
var BeforeTeardown func()

// Blocked returns the threads that have not finished, with their pending op kind.
func (s *Sched) Blocked() []string {
	var out []string
	for _, u := range s.threads {
		if !u.done {
			k := "?"
			if u.pending != nil {
				k = u.pending.Kind
			}
			out = append(out, fmt.Sprintf("t%d(%s):%s", u.ID, u.Name, k))
		}
	}
	return out
}
