package mc

import (
	"cmp"
	"os"
	"runtime"
	"sort"
	"unsafe"
)

// Elem returns v with the element type of ch (used to type send values of a rewritten select).
func Elem[T any](ch chan<- T, v T) T { return v }

// RO returns the receive-only view of ch.
func RO[T any](ch <-chan T) <-chan T { return ch }

// MapOrder, when set by a scenario, permutes the sorted key order of the map range at site.
var MapOrder func(site string, n int) []int

// Keys returns the keys of m in sorted order (or in the order a scenario chose for this site).
func Keys[K cmp.Ordered, V any](m map[K]V, site string) []K {
	ks := make([]K, 0, len(m))
	for k := range m {
		ks = append(ks, k)
	}
	sort.Slice(ks, func(i, j int) bool { return ks[i] < ks[j] })
	if MapOrder != nil {
		if p := MapOrder(site, len(ks)); p != nil {
			out := make([]K, len(ks))
			for i, j := range p {
				out[i] = ks[j]
			}
			return out
		}
	}
	return ks
}

// Unreachable is the default arm of a rewritten select without default.
func Unreachable() string {
	if Killing() {
		runtime.Goexit()
	}
	return "gomc: select returned no case"
}

// Ptr converts a pointer to unsafe.Pointer for the race annotations.
func Ptr[T any](p *T) unsafe.Pointer { return unsafe.Pointer(p) }

// ThreadInfo describes a live thread.
type ThreadInfo struct {
	ID      int
	Name    string
	Pending string
}

// LiveThreads lists the threads that have not finished (excluding the caller).
func LiveThreads() []ThreadInfo {
	if Killing() {
		return nil
	}
	var out []ThreadInfo
	for _, u := range S.threads {
		if u.done || u == S.cur {
			continue
		}
		k := "running"
		if u.pending != nil {
			k = u.pending.Kind
		}
		out = append(out, ThreadInfo{ID: u.ID, Name: u.Name, Pending: k})
	}
	return out
}

func init() {
	// GOMC_MAPORDER selects a member of the iteration-order family for every instrumented map
	// range of a process that does not run under the explorer (the generator plugin).
	switch v := os.Getenv("GOMC_MAPORDER"); {
	case v == "rev":
		MapOrder = func(site string, n int) []int {
			p := make([]int, n)
			for i := range p {
				p[i] = n - 1 - i
			}
			return p
		}
	case len(v) > 3 && v[:3] == "rot":
		k := int(v[3] - '0')
		MapOrder = func(site string, n int) []int {
			p := make([]int, n)
			for i := range p {
				p[i] = (i + k) % n
			}
			return p
		}
	}
}
