//go:build !race

package mc

import "unsafe"

func raceDisable()                 {}
func raceEnable()                  {}
func RaceAcquire(p unsafe.Pointer) {}
func RaceRelease(p unsafe.Pointer) {}

const RaceEnabled = false
