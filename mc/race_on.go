//go:build race

package mc

import (
	"runtime"
	"unsafe"
)

func raceDisable()                 { runtime.RaceDisable() }
func raceEnable()                  { runtime.RaceEnable() }
func RaceAcquire(p unsafe.Pointer) { runtime.RaceAcquire(p) }
func RaceRelease(p unsafe.Pointer) { runtime.RaceReleaseMerge(p) }

const RaceEnabled = true
