// Package mcatomic mirrors the parts of sync/atomic used by instrumented code.
package mcatomic

import (
	"unsafe"

	"verif/mc"
)

func pt(kind string, p unsafe.Pointer, do func()) {
	if mc.Killing() {
		do()
		return
	}
	mc.Point(&mc.Op{Kind: kind, Obj: p, Alts: func() int { return 1 }, Do: func(int) {
		mc.RaceAcquire(p)
		do()
		mc.RaceRelease(p)
	}})
}

func LoadInt32(p *int32) (v int32)   { pt("atomic.Load", unsafe.Pointer(p), func() { v = *p }); return }
func StoreInt32(p *int32, v int32)   { pt("atomic.Store", unsafe.Pointer(p), func() { *p = v }) }
func AddInt32(p *int32, d int32) (v int32) {
	pt("atomic.Add", unsafe.Pointer(p), func() { *p += d; v = *p })
	return
}
func LoadUint64(p *uint64) (v uint64) { pt("atomic.Load", unsafe.Pointer(p), func() { v = *p }); return }
func StoreUint64(p *uint64, v uint64) { pt("atomic.Store", unsafe.Pointer(p), func() { *p = v }) }
func AddUint64(p *uint64, d uint64) (v uint64) {
	pt("atomic.Add", unsafe.Pointer(p), func() { *p += d; v = *p })
	return
}
func CompareAndSwapInt32(p *int32, o, n int32) (ok bool) {
	pt("atomic.CAS", unsafe.Pointer(p), func() {
		if *p == o {
			*p, ok = n, true
		}
	})
	return
}
