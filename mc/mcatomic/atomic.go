// Package mcatomic mirrors sync/atomic for instrumented code: every operation is a
// visible operation of the scheduler (and an acquire+release for the race oracle).
package mcatomic

import (
	"unsafe"

	"verif/mc"
)

func pt(kind string, p unsafe.Pointer, ro bool, do func()) {
	if mc.Killing() {
		do()
		return
	}
	mc.Point(&mc.Op{Kind: kind, Obj: p, RO: ro, Alts: func() int { return 1 }, Do: func(int) {
		mc.RaceAcquire(p)
		do()
		mc.RaceRelease(p)
	}})
}

type integer interface {
	~int32 | ~int64 | ~uint32 | ~uint64 | ~uintptr
}

func load[T any](p *T) (v T) { pt("atomic.Load", unsafe.Pointer(p), true, func() { v = *p }); return }
func store[T any](p *T, v T) { pt("atomic.Store", unsafe.Pointer(p), false, func() { *p = v }) }
func swap[T any](p *T, n T) (o T) {
	pt("atomic.Swap", unsafe.Pointer(p), false, func() { o = *p; *p = n })
	return
}
func add[T integer](p *T, d T) (v T) {
	pt("atomic.Add", unsafe.Pointer(p), false, func() { *p += d; v = *p })
	return
}
func cas[T comparable](p *T, o, n T) (ok bool) {
	pt("atomic.CAS", unsafe.Pointer(p), false, func() {
		if *p == o {
			*p, ok = n, true
		}
	})
	return
}

func LoadInt32(p *int32) int32                                          { return load(p) }
func LoadInt64(p *int64) int64                                          { return load(p) }
func LoadUint32(p *uint32) uint32                                       { return load(p) }
func LoadUint64(p *uint64) uint64                                       { return load(p) }
func LoadUintptr(p *uintptr) uintptr                                    { return load(p) }
func LoadPointer(p *unsafe.Pointer) unsafe.Pointer                      { return load(p) }
func StoreInt32(p *int32, v int32)                                      { store(p, v) }
func StoreInt64(p *int64, v int64)                                      { store(p, v) }
func StoreUint32(p *uint32, v uint32)                                   { store(p, v) }
func StoreUint64(p *uint64, v uint64)                                   { store(p, v) }
func StoreUintptr(p *uintptr, v uintptr)                                { store(p, v) }
func StorePointer(p *unsafe.Pointer, v unsafe.Pointer)                  { store(p, v) }
func AddInt32(p *int32, d int32) int32                                  { return add(p, d) }
func AddInt64(p *int64, d int64) int64                                  { return add(p, d) }
func AddUint32(p *uint32, d uint32) uint32                              { return add(p, d) }
func AddUint64(p *uint64, d uint64) uint64                              { return add(p, d) }
func AddUintptr(p *uintptr, d uintptr) uintptr                          { return add(p, d) }
func SwapInt32(p *int32, v int32) int32                                 { return swap(p, v) }
func SwapInt64(p *int64, v int64) int64                                 { return swap(p, v) }
func SwapUint32(p *uint32, v uint32) uint32                             { return swap(p, v) }
func SwapUint64(p *uint64, v uint64) uint64                             { return swap(p, v) }
func SwapPointer(p *unsafe.Pointer, v unsafe.Pointer) unsafe.Pointer    { return swap(p, v) }
func CompareAndSwapInt32(p *int32, o, n int32) bool                     { return cas(p, o, n) }
func CompareAndSwapInt64(p *int64, o, n int64) bool                     { return cas(p, o, n) }
func CompareAndSwapUint32(p *uint32, o, n uint32) bool                  { return cas(p, o, n) }
func CompareAndSwapUint64(p *uint64, o, n uint64) bool                  { return cas(p, o, n) }
func CompareAndSwapPointer(p *unsafe.Pointer, o, n unsafe.Pointer) bool { return cas(p, o, n) }

type Int32 struct{ v int32 }

func (x *Int32) Load() int32                    { return load(&x.v) }
func (x *Int32) Store(v int32)                  { store(&x.v, v) }
func (x *Int32) Add(d int32) int32              { return add(&x.v, d) }
func (x *Int32) Swap(v int32) int32             { return swap(&x.v, v) }
func (x *Int32) CompareAndSwap(o, n int32) bool { return cas(&x.v, o, n) }

type Int64 struct{ v int64 }

func (x *Int64) Load() int64                    { return load(&x.v) }
func (x *Int64) Store(v int64)                  { store(&x.v, v) }
func (x *Int64) Add(d int64) int64              { return add(&x.v, d) }
func (x *Int64) Swap(v int64) int64             { return swap(&x.v, v) }
func (x *Int64) CompareAndSwap(o, n int64) bool { return cas(&x.v, o, n) }

type Uint32 struct{ v uint32 }

func (x *Uint32) Load() uint32                    { return load(&x.v) }
func (x *Uint32) Store(v uint32)                  { store(&x.v, v) }
func (x *Uint32) Add(d uint32) uint32             { return add(&x.v, d) }
func (x *Uint32) Swap(v uint32) uint32            { return swap(&x.v, v) }
func (x *Uint32) CompareAndSwap(o, n uint32) bool { return cas(&x.v, o, n) }

type Uint64 struct{ v uint64 }

func (x *Uint64) Load() uint64                    { return load(&x.v) }
func (x *Uint64) Store(v uint64)                  { store(&x.v, v) }
func (x *Uint64) Add(d uint64) uint64             { return add(&x.v, d) }
func (x *Uint64) Swap(v uint64) uint64            { return swap(&x.v, v) }
func (x *Uint64) CompareAndSwap(o, n uint64) bool { return cas(&x.v, o, n) }

type Bool struct{ v bool }

func (x *Bool) Load() bool                    { return load(&x.v) }
func (x *Bool) Store(v bool)                  { store(&x.v, v) }
func (x *Bool) Swap(v bool) bool              { return swap(&x.v, v) }
func (x *Bool) CompareAndSwap(o, n bool) bool { return cas(&x.v, o, n) }

type Pointer[T any] struct{ v *T }

func (x *Pointer[T]) Load() *T                    { return load(&x.v) }
func (x *Pointer[T]) Store(v *T)                  { store(&x.v, v) }
func (x *Pointer[T]) Swap(v *T) *T                { return swap(&x.v, v) }
func (x *Pointer[T]) CompareAndSwap(o, n *T) bool { return cas(&x.v, o, n) }

type Value struct{ v any }

func (x *Value) Load() any      { return load(&x.v) }
func (x *Value) Store(v any)    { store(&x.v, v) }
func (x *Value) Swap(v any) any { return swap(&x.v, v) }
func (x *Value) CompareAndSwap(o, n any) (ok bool) {
	pt("atomic.CAS", unsafe.Pointer(&x.v), false, func() {
		if x.v == o {
			x.v, ok = n, true
		}
	})
	return
}
