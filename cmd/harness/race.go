package main

import (
	"fmt"
	"os"
	"regexp"
	"strings"

	"verif/mc"
)

// raceLog follows the race detector's log file (GORACE=log_path=<prefix>) of this process.
type raceLog struct {
	path string
	off  int64
}

func newRaceLog() *raceLog {
	if !mc.RaceEnabled {
		return nil
	}
	for _, f := range strings.Fields(os.Getenv("GORACE")) {
		if strings.HasPrefix(f, "log_path=") {
			return &raceLog{path: fmt.Sprintf("%s.%d", strings.TrimPrefix(f, "log_path="), os.Getpid())}
		}
	}
	return nil
}

type raceReport struct {
	sig  string
	text string
	lib  bool // both stacks contain a frame of the library
}

var frameRe = regexp.MustCompile(`^  (\S+)\(\)$`)

func isLibFrame(fn string) bool {
	if strings.HasPrefix(fn, "github.com/relab/gorums.Verif") {
		return false // accessors added by the overlay for the harness (extra/zz_verif_access.go)
	}
	return strings.HasPrefix(fn, "github.com/relab/gorums.") || strings.HasPrefix(fn, "github.com/relab/gorums/cmd/protoc-gen-gorums/dev.") || strings.HasPrefix(fn, "github.com/relab/gorums/ordering.")
}

func shortFn(fn string) string {
	fn = strings.TrimPrefix(fn, "github.com/relab/gorums/cmd/protoc-gen-gorums/")
	fn = strings.TrimPrefix(fn, "github.com/relab/")
	return fn
}

// parse splits new log content into reports.
func parseRaceReports(text string) []raceReport {
	var out []raceReport
	for _, blk := range strings.Split(text, "==================") {
		if !strings.Contains(blk, "WARNING: DATA RACE") {
			continue
		}
		// the two access stacks are the first two paragraphs
		paras := strings.Split(strings.TrimSpace(blk), "\n\n")
		var sites []string
		lib := true
		for i, para := range paras {
			if i >= 2 {
				break
			}
			site := ""
			for _, l := range strings.Split(para, "\n") {
				if m := frameRe.FindStringSubmatch(l); m != nil && isLibFrame(m[1]) {
					site = shortFn(m[1])
					break
				}
			}
			if site == "" {
				lib = false
				site = "(no library frame)"
			}
			sites = append(sites, site)
		}
		if len(sites) == 2 && sites[0] > sites[1] {
			sites[0], sites[1] = sites[1], sites[0]
		}
		out = append(out, raceReport{sig: strings.Join(sites, " <-> "), text: strings.TrimSpace(blk), lib: lib})
	}
	return out
}

// collect returns the reports written since the last call.
func (r *raceLog) collect() []raceReport {
	if r == nil {
		return nil
	}
	fi, err := os.Stat(r.path)
	if err != nil || fi.Size() <= r.off {
		return nil
	}
	f, err := os.Open(r.path)
	if err != nil {
		return nil
	}
	defer f.Close()
	buf := make([]byte, fi.Size()-r.off)
	f.ReadAt(buf, r.off)
	r.off = fi.Size()
	return parseRaceReports(string(buf))
}
