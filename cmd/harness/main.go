// harness is the check provider for every check that executes gorums code. It
// is built with the instrumentation overlay, so the gorums packages it links
// run under the gomc scheduler.
//
//	harness -check C01 -tier quick -list            -> number and names of instances
//	harness -check C01 -tier quick -worker          -> reads instance indices on stdin, one JSON result per line on stdout
//	harness -replay file.json                       -> re-executes one recorded schedule twice
package main

import (
	"bufio"
	"encoding/json"
	"flag"
	"fmt"
	"os"
	"reflect"
	"strconv"
	"strings"
	"time"

	"verif/checks"
	"verif/mc"
	"verif/vp"
)

func main() {
	check := flag.String("check", "", "property id")
	tier := flag.String("tier", "quick", "quick or thorough")
	list := flag.Bool("list", false, "list instances")
	worker := flag.Bool("worker", false, "serve instance indices from stdin")
	replay := flag.String("replay", "", "replay file")
	deadline := flag.Int64("deadline", 0, "unix time after which explorations stop (exhaustive:false)")
	one := flag.Int("one", -1, "run a single instance and print its result")
	noCache := flag.Bool("nocache", false, "disable fingerprint pruning")
	bound := flag.Int("bound", -1, "override the deviation bound")
	flag.Parse()

	if *replay != "" {
		os.Exit(doReplay(*replay))
	}
	checks.Focus = *check
	c := checks.Get(*check)
	if c == nil {
		fmt.Fprintf(os.Stderr, "harness: unknown check %q (have %v)\n", *check, checks.IDs())
		os.Exit(3)
	}
	insts := c.Gen(*tier)
	if *tier == "thorough" {
		// second pass of the thorough tier: every scheduled instance once more, one deviation deeper; these
		// come last, so the time budget cuts them first (reported as unfinished)
		n := len(insts)
		for i := 0; i < n; i++ {
			in := insts[i]
			if in.Root == nil || in.Bound < 1 || in.Bound > 2 {
				continue
			}
			in.Name += "/deeper"
			in.Bound++
			in.StartBound = in.Bound
			in.PruneFrom = 0
			insts = append(insts, in)
		}
	}
	if *list {
		out := struct {
			N           int      `json:"n"`
			Names       []string `json:"names"`
			Rule        string   `json:"rule"`
			Assumptions []string `json:"assumptions"`
		}{N: len(insts), Rule: c.Rule, Assumptions: c.Assumptions}
		for _, in := range insts {
			out.Names = append(out.Names, in.Name)
		}
		json.NewEncoder(os.Stdout).Encode(out)
		return
	}
	var dl time.Time
	if *deadline > 0 {
		dl = time.Unix(*deadline, 0)
	}
	checks.Deadline = dl
	runOne := func(i int) vp.InstResult {
		in := insts[i]
		if *bound >= 0 {
			in.Bound = *bound
		}
		if *noCache {
			in.NoCache = true
		}
		r := runInstance(i, in, dl)
		return r
	}
	if *one >= 0 {
		r := runOne(*one)
		b, _ := json.MarshalIndent(r, "", " ")
		fmt.Println(string(b))
		return
	}
	if *worker {
		sc := bufio.NewScanner(os.Stdin)
		w := bufio.NewWriter(os.Stdout)
		enc := json.NewEncoder(w)
		for sc.Scan() {
			i, err := strconv.Atoi(strings.TrimSpace(sc.Text()))
			if err != nil || i < 0 || i >= len(insts) {
				continue
			}
			r := runOne(i)
			enc.Encode(r)
			w.Flush()
		}
		return
	}
	fmt.Fprintln(os.Stderr, "harness: need -list, -worker, -one or -replay")
	os.Exit(3)
}

var (
	rlog               = newRaceLog()
	harnessOnlyReports int
	liveReports        []raceReport
)

func init() {
	if rlog != nil {
		// reports written while an execution's unfinished threads are being killed are not observations of
		// the program (deferred functions run with the modelled primitives switched off)
		mc.BeforeTeardown = func() { liveReports = append(liveReports, rlog.collect()...) }
	}
}

// takeReports returns the race reports of the execution that has just ended and drops those of its teardown.
func takeReports() []raceReport {
	out := liveReports
	liveReports = nil
	rlog.collect()
	return out
}

func runInstance(i int, in checks.Instance, dl time.Time) (r vp.InstResult) {
	t0 := time.Now()
	r = vp.InstResult{Index: i, Name: in.Name, Bound: in.Bound, BoundCompleted: -1, Outcomes: map[string]int{}, Complete: true}
	defer func() { r.ElapsedMs = time.Since(t0).Milliseconds() }()
	if !dl.IsZero() && time.Now().After(dl) {
		r.Skipped, r.Complete = true, false
		return
	}
	if in.Seq != nil {
		in.Seq(&r)
		if r.Complete {
			r.BoundCompleted = in.Bound
		}
		return
	}
	for b := in.StartBound; b <= in.Bound; b++ {
		// Fingerprint pruning is exact for data-race-free code only; an instance may ask for its lower bounds
		// to be explored without it (PruneFrom).
		e := &mc.Explorer{Bound: b, Root: in.Root, MaxSteps: in.MaxSteps, Deadline: dl, UseCache: !in.NoCache && b >= in.PruneFrom}
		if rlog != nil {
			e.End = func(s *mc.Sched) {
				for _, rep := range takeReports() {
					if !rep.lib {
						harnessOnlyReports++
						continue
					}
					s.Viol = append(s.Viol, mc.Violation{Rule: "C15/race", Key: rep.sig, Msg: "data race between " + rep.sig + "\n" + rep.text})
					s.OutcomeStr += ";race:" + rep.sig
				}
			}
		}
		res := e.Explore()
		r.Execs += res.Execs
		r.Steps += res.Steps
		r.Points += res.Points
		r.CapHits += res.CapHits
		r.Pruned += res.Pruned
		if res.Histories > r.Histories {
			r.Histories = res.Histories
		}
		r.ViolExecs += res.ViolExecs
		if res.States > r.States {
			r.States = res.States
		}
		if res.MaxAlts > r.MaxAlts {
			r.MaxAlts = res.MaxAlts
		}
		if res.MaxThreads > r.MaxThreads {
			r.MaxThreads = res.MaxThreads
		}
		for k, v := range res.Outcomes {
			if b == in.Bound || !res.Complete || len(res.Violations) > 0 {
				r.Outcomes[k] += v
			} else if _, ok := r.Outcomes[k]; !ok {
				r.Outcomes[k] = 0
			}
		}
		if r.Sample == nil && res.Sample != nil {
			r.Sample = map[string]any{"instance": in.Name, "choices": res.Sample.Choices, "outcome": res.Sample.Outcome}
		}
		if !res.Complete {
			r.Complete = false
			break
		}
		if len(res.Violations) > 0 {
			for _, f := range res.Violations {
				for _, v := range f.Viol {
					r.Violations = append(r.Violations, vp.Viol{Rule: v.Rule, Key: v.Key, Msg: v.Msg, Choices: f.Choices, Devs: f.Devs, Blocked: f.Blocked})
				}
			}
			// the smallest bound with a violation gives the simplest counterexample
			r.BoundCompleted = b - 1
			r.Complete = false
			return
		}
		r.BoundCompleted = b
	}
	return
}

func doReplay(path string) int {
	b, err := os.ReadFile(path)
	if err != nil {
		fmt.Fprintln(os.Stderr, err)
		return 3
	}
	var rp vp.Replay
	if err := json.Unmarshal(b, &rp); err != nil {
		fmt.Fprintln(os.Stderr, err)
		return 3
	}
	c := checks.Get(rp.Check)
	if c == nil {
		fmt.Fprintf(os.Stderr, "unknown check %q\n", rp.Check)
		return 3
	}
	insts := c.Gen(rp.Tier)
	idx := -1
	for i, in := range insts {
		if in.Name == rp.Instance || in.Name+"/deeper" == rp.Instance {
			idx = i
		}
	}
	if idx < 0 {
		fmt.Fprintf(os.Stderr, "instance %q not found in %s/%s\n", rp.Instance, rp.Check, rp.Tier)
		return 3
	}
	in := insts[idx]
	if in.Seq != nil {
		var r vp.InstResult
		r.Outcomes = map[string]int{}
		in.Seq(&r)
		hit := false
		for _, v := range r.Violations {
			if v.Rule == rp.Rule && v.Key == rp.Key {
				hit = true
				fmt.Printf("REPRODUCED %s [%s]: %s\n", v.Rule, v.Key, v.Msg)
			}
		}
		if !hit {
			fmt.Println("NOT REPRODUCED")
			return 0
		}
		return 1
	}
	addRaces := func(s *mc.Sched) {
		for _, rep := range takeReports() {
			if rep.lib {
				s.Viol = append(s.Viol, mc.Violation{Rule: "C15/race", Key: rep.sig, Msg: "data race between " + rep.sig + "\n" + rep.text})
			}
		}
	}
	s1 := mc.Replay(in.Root, rp.Choices, in.MaxSteps)
	addRaces(s1)
	s2 := mc.Replay(in.Root, rp.Choices, in.MaxSteps)
	addRaces(s2)
	if s1.Diverged != "" || s2.Diverged != "" {
		fmt.Printf("DIVERGED: %s %s\n", s1.Diverged, s2.Diverged)
		return 3
	}
	if !reflect.DeepEqual(s1.Log, s2.Log) {
		fmt.Println("NONDETERMINISTIC: two replays of the same schedule produced different logs")
		return 3
	}
	for _, l := range s1.Log {
		fmt.Println("  ", l)
	}
	fmt.Println("blocked threads at the end:", s1.Blocked())
	hit := false
	for _, v := range s1.Viol {
		fmt.Printf("VIOLATION-OBSERVED %s [%s]: %s\n", v.Rule, v.Key, v.Msg)
		if v.Rule == rp.Rule && (rp.Rule != "C15/race" || v.Key == rp.Key) {
			hit = true
		}
	}
	if !hit && rp.Rule == "C15/race" {
		// ThreadSanitizer keeps a bounded, pseudo-randomly evicted access history per memory cell, so a
		// given racing pair is not reported on every run of the same schedule: repeat the schedule.
		for i := 0; i < 40 && !hit; i++ {
			s := mc.Replay(in.Root, rp.Choices, in.MaxSteps)
			addRaces(s)
			if !reflect.DeepEqual(s.Log, s1.Log) {
				fmt.Println("NONDETERMINISTIC: replays of the same schedule produced different logs")
				return 3
			}
			for _, v := range s.Viol {
				if v.Rule == rp.Rule && v.Key == rp.Key {
					hit = true
					fmt.Printf("VIOLATION-OBSERVED %s [%s] (repetition %d of the schedule): %s\n", v.Rule, v.Key, i+3, v.Msg)
				}
			}
		}
	}
	if !hit {
		fmt.Println("NOT REPRODUCED: the schedule no longer violates", rp.Rule)
		return 0
	}
	fmt.Println("REPRODUCED (identical replays)")
	return 1
}
