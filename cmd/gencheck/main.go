// gencheck is the check provider for the generator properties C16 and C17. It
// drives the plugin binaries built from /repo's working tree (paths in
// VERIF_BUILD_DIR) and speaks the same protocol as cmd/harness.
package main

import (
	"bufio"
	"encoding/json"
	"flag"
	"fmt"
	"os"
	"path/filepath"
	"strconv"
	"strings"
	"time"

	"verif/vp"
)

type instance struct {
	name string
	run  func(r *vp.InstResult)
}

type check struct {
	rule        string
	assumptions []string
	gen         func(tier string) []instance
}

var (
	buildDir = os.Getenv("VERIF_BUILD_DIR")
	repoDir  = "/repo"
	deadline time.Time
	checks   = map[string]*check{}
)

func expired() bool { return !deadline.IsZero() && time.Now().After(deadline) }

func plugin(name string) string { return filepath.Join(buildDir, name) }

func addViol(r *vp.InstResult, rule, key, msg string, input any) {
	for _, v := range r.Violations {
		if v.Rule == rule && v.Key == key {
			return
		}
	}
	r.Violations = append(r.Violations, vp.Viol{Rule: rule, Key: key, Msg: msg, Input: input})
	r.Complete = false
}

func main() {
	checkID := flag.String("check", "", "property id")
	tier := flag.String("tier", "quick", "quick or thorough")
	list := flag.Bool("list", false, "list instances")
	worker := flag.Bool("worker", false, "serve instance indices from stdin")
	replay := flag.String("replay", "", "replay file")
	dl := flag.Int64("deadline", 0, "unix time after which enumerations stop")
	one := flag.Int("one", -1, "run a single instance")
	regenDev := flag.String("regen-dev", "", "write the dev stubs regenerated from the working tree's templates to this directory and exit")
	flag.Parse()
	if r := os.Getenv("VERIF_REPO"); r != "" {
		repoDir = r
	}
	if *dl > 0 {
		deadline = time.Unix(*dl, 0)
	}
	if *regenDev != "" {
		os.Exit(doRegenDev(*regenDev))
	}
	if *replay != "" {
		os.Exit(doReplay(*replay))
	}
	c := checks[*checkID]
	if c == nil {
		fmt.Fprintf(os.Stderr, "gencheck: unknown check %q\n", *checkID)
		os.Exit(3)
	}
	insts := c.gen(*tier)
	if *list {
		out := struct {
			N           int      `json:"n"`
			Names       []string `json:"names"`
			Rule        string   `json:"rule"`
			Assumptions []string `json:"assumptions"`
		}{N: len(insts), Rule: c.rule, Assumptions: c.assumptions}
		for _, in := range insts {
			out.Names = append(out.Names, in.name)
		}
		json.NewEncoder(os.Stdout).Encode(out)
		return
	}
	runOne := func(i int) vp.InstResult {
		t0 := time.Now()
		r := vp.InstResult{Index: i, Name: insts[i].name, Outcomes: map[string]int{}, Complete: true, BoundCompleted: -1}
		if expired() {
			r.Skipped, r.Complete = true, false
			return r
		}
		insts[i].run(&r)
		if r.Complete {
			r.BoundCompleted = 0
		}
		r.ElapsedMs = time.Since(t0).Milliseconds()
		return r
	}
	if *one >= 0 {
		b, _ := json.MarshalIndent(runOne(*one), "", " ")
		fmt.Println(string(b))
		return
	}
	if *worker {
		sc := bufio.NewScanner(os.Stdin)
		w := bufio.NewWriter(os.Stdout)
		enc := json.NewEncoder(w)
		for sc.Scan() {
			i, err := strconv.Atoi(strings.TrimSpace(sc.Text()))
			if err != nil || i < 0 || i >= len(insts) {
				continue
			}
			enc.Encode(runOne(i))
			w.Flush()
		}
		return
	}
	os.Exit(3)
}

func doReplay(path string) int {
	b, err := os.ReadFile(path)
	if err != nil {
		fmt.Fprintln(os.Stderr, err)
		return 3
	}
	var rp vp.Replay
	if err := json.Unmarshal(b, &rp); err != nil {
		fmt.Fprintln(os.Stderr, err)
		return 3
	}
	c := checks[rp.Check]
	if c == nil {
		return 3
	}
	for _, in := range c.gen(rp.Tier) {
		if in.name != rp.Instance {
			continue
		}
		r := vp.InstResult{Name: in.name, Outcomes: map[string]int{}, Complete: true}
		in.run(&r)
		for _, v := range r.Violations {
			if v.Rule == rp.Rule && v.Key == rp.Key {
				fmt.Printf("REPRODUCED %s [%s]: %s\n", v.Rule, v.Key, v.Msg)
				return 1
			}
		}
		fmt.Println("NOT REPRODUCED")
		return 0
	}
	fmt.Fprintf(os.Stderr, "instance %q not found\n", rp.Instance)
	return 3
}

// doRegenDev regenerates cmd/protoc-gen-gorums/dev/zorums_*_gorums.pb.go with the plugin built
// from the working tree, so that the harness exercises what the current templates produce.
func doRegenDev(out string) int {
	dirs, err := findGenDirs()
	if err != nil {
		fmt.Fprintln(os.Stderr, err)
		return 1
	}
	for _, d := range dirs {
		if !d.dev {
			continue
		}
		res, _, err := regenerate(d, "protoc-gen-gorums", nil)
		if err != nil {
			fmt.Fprintln(os.Stderr, err)
			return 1
		}
		if res.Exit != 0 || res.Error != "" {
			diag, _ := res.Diagnostic()
			fmt.Fprintln(os.Stderr, "plugin rejects zorums.proto:", diag)
			return 1
		}
		os.MkdirAll(out, 0o755)
		for name, content := range res.Files {
			if err := os.WriteFile(filepath.Join(out, filepath.Base(name)), []byte(content), 0o644); err != nil {
				fmt.Fprintln(os.Stderr, err)
				return 1
			}
		}
		return 0
	}
	fmt.Fprintln(os.Stderr, "dev directory not found")
	return 1
}
