package main

import (
	"fmt"
	"go/ast"
	"go/parser"
	"go/token"
	"os"
	"os/exec"
	"path/filepath"
	"regexp"
	"sort"
	"strconv"
	"strings"

	"google.golang.org/protobuf/proto"
	"google.golang.org/protobuf/types/descriptorpb"

	"verif/gen"
	"verif/vp"
)

// C16: the generator is total, deterministic and never silently emits broken code.

// classify applies the legality model of doc/method-options.md to one method.
func classify(m gen.MethodSpec) (class, why string) {
	types := 0
	for _, b := range []bool{m.Quorumcall, m.Correctable, m.Multicast, m.Unicast} {
		if b {
			types++
		}
	}
	switch {
	case types > 1:
		return "illegal", "call types cannot be combined"
	case m.Async && !m.Quorumcall:
		return "illegal", "async requires quorumcall"
	case m.Async && m.Correctable:
		return "illegal", "async must not be combined with correctable"
	case m.ClientStream && !m.Multicast:
		return "illegal", "client streams require multicast"
	case m.ServerStream && !m.Correctable:
		return "illegal", "server streams require correctable"
	case m.Correctable && m.ClientStream:
		return "illegal", "correctable is only valid for server streams"
	}
	rpc := types == 0
	switch {
	case (rpc || m.Unicast) && (m.PerNodeArg || m.CustomRet != ""):
		return "na", "per_node_arg / custom_return_type are not applicable to rpc and unicast"
	case m.Multicast && m.CustomRet != "":
		return "na", "custom_return_type is not applicable to multicast"
	}
	return "legal", ""
}

var shapes = []struct{ name, in, out string }{
	{"local", "Req", "Resp"},
	{"empty-in", ".google.protobuf.Empty", "Resp"},
	{"empty-out", "Req", ".google.protobuf.Empty"},
	{"same", "Msg", "Msg"},
}

func latticeMethod(bits int, shape int) gen.MethodSpec {
	m := gen.MethodSpec{Name: "M", In: shapes[shape].in, Out: shapes[shape].out}
	m.Quorumcall = bits&1 != 0
	m.Async = bits&2 != 0
	m.Correctable = bits&4 != 0
	m.Multicast = bits&8 != 0
	m.Unicast = bits&16 != 0
	m.PerNodeArg = bits&32 != 0
	if bits&64 != 0 {
		m.CustomRet = "Custom"
	}
	m.ClientStream = bits&128 != 0
	m.ServerStream = bits&256 != 0
	return m
}

type genCase struct {
	spec     gen.ServiceSpec
	class    string // legal, illegal, na
	why      string
	label    string
	res      *gen.Result
	goRes    *gen.Result
	compiled bool
	buildErr string
}

var extraDescs map[string]*descriptorpb.FileDescriptorProto

func repoDescs() map[string]*descriptorpb.FileDescriptorProto {
	if extraDescs == nil {
		extraDescs, _ = gen.RepoDescriptors(repoDir)
	}
	return extraDescs
}

func runPlugins(c *genCase, pluginName string, env []string) error {
	fd := c.spec.File()
	deps, err := gen.Deps(fd, repoDescs())
	if err != nil {
		return err
	}
	c.res, err = gen.Run(plugin(pluginName), env, fd, deps, "")
	if err != nil {
		return err
	}
	if c.goRes == nil {
		c.goRes, err = gen.Run(plugin("protoc-gen-go"), nil, fd, deps, "")
	}
	return err
}

var pkgErrRe = regexp.MustCompile(`(?m)^# genmod/(\S+)`)

// writeScratchModule creates go.mod / go.sum of a scratch module "genmod" with the same module graph as the
// verif module (known to resolve offline from the module cache).
func writeScratchModule(scratch string) error {
	if err := os.MkdirAll(scratch, 0o755); err != nil {
		return err
	}
	vd := os.Getenv("VERIF_DIR")
	if vd == "" {
		vd = "/verif"
	}
	gm, err := os.ReadFile(filepath.Join(vd, "go.mod"))
	if err != nil {
		return err
	}
	gomod := strings.Replace(string(gm), "module verif", "module genmod", 1)
	gomod = strings.Replace(gomod, "=> /repo", "=> "+repoDir, 1)
	os.WriteFile(filepath.Join(scratch, "go.mod"), []byte(gomod), 0o644)
	var sum []byte
	for _, f := range []string{filepath.Join(vd, "go.sum"), filepath.Join(repoDir, "go.sum")} {
		if b, err := os.ReadFile(f); err == nil {
			sum = append(sum, b...)
		}
	}
	return os.WriteFile(filepath.Join(scratch, "go.sum"), sum, 0o644)
}

// compileAll writes the generated packages of the cases into one scratch module and builds it.
func compileAll(scratch string, cases []*genCase) error {
	os.RemoveAll(scratch)
	if err := os.MkdirAll(scratch, 0o755); err != nil {
		return err
	}
	defer os.RemoveAll(scratch)
	if err := writeScratchModule(scratch); err != nil {
		return err
	}
	any := false
	for _, c := range cases {
		if c.res == nil || len(c.res.Files) == 0 {
			continue
		}
		any = true
		dir := filepath.Join(scratch, c.spec.Pkg)
		os.MkdirAll(dir, 0o755)
		for n, content := range c.res.Files {
			os.WriteFile(filepath.Join(dir, filepath.Base(n)), []byte(content), 0o644)
		}
		if c.goRes != nil {
			for n, content := range c.goRes.Files {
				os.WriteFile(filepath.Join(dir, filepath.Base(n)), []byte(content), 0o644)
			}
		}
		c.compiled = true
	}
	if !any {
		return nil
	}
	cmd := exec.Command("go", "build", "./...")
	cmd.Dir = scratch
	cmd.Env = append(os.Environ(), "GOFLAGS=-mod=mod", "GOPROXY=off", "GOSUMDB=off", "GOTOOLCHAIN=local")
	out, err := cmd.CombinedOutput()
	if err == nil {
		return nil
	}
	text := string(out)
	idx := pkgErrRe.FindAllStringSubmatchIndex(text, -1)
	if len(idx) == 0 {
		return fmt.Errorf("go build of the generated packages failed without naming a package: %s", firstLine(text))
	}
	byPkg := map[string]string{}
	for i, m := range idx {
		end := len(text)
		if i+1 < len(idx) {
			end = idx[i+1][0]
		}
		byPkg[text[m[2]:m[3]]] = strings.TrimSpace(text[m[1]:end])
	}
	for _, c := range cases {
		if e, ok := byPkg[c.spec.Pkg]; ok {
			c.compiled = false
			c.buildErr = e
		}
	}
	return nil
}

// judge applies the oracle to one case after generation and compilation.
func judge(r *vp.InstResult, c *genCase) {
	diag, proper := c.res.Diagnostic()
	rejected := c.res.Exit != 0 || c.res.Error != ""
	hasOutput := len(c.res.Files) > 0
	in := map[string]any{"service": c.label, "package": c.spec.Pkg}
	outcome := c.class + ":"
	switch {
	case rejected && !proper:
		outcome += "crash"
		addViol(r, "C16/plugin-crash", c.label, fmt.Sprintf("%s: the plugin crashed instead of printing a diagnostic: %s", c.label, firstLine(diag)), in)
	case rejected:
		outcome += "diagnostic"
		if c.class == "legal" {
			addViol(r, "C16/legal-rejected", c.label, fmt.Sprintf("%s: a combination the documentation allows is rejected: %s", c.label, firstLine(diag)), in)
		}
	case !hasOutput:
		outcome += "nothing"
		if c.class == "illegal" {
			addViol(r, "C16/illegal-silently-ignored", ruleKey(c), fmt.Sprintf("%s: documented-illegal (%s) but the plugin neither reports a diagnostic nor generates anything", c.label, c.why), in)
		} else if c.class == "legal" {
			addViol(r, "C16/legal-no-output", c.label, fmt.Sprintf("%s: legal but nothing was generated", c.label), in)
		}
	case !c.compiled:
		outcome += "broken-code"
		rule := "C16/emits-code-that-does-not-compile"
		if c.class == "illegal" {
			rule = "C16/illegal-accepted-and-broken"
		}
		addViol(r, rule, ruleKey(c), fmt.Sprintf("%s (%s%s): the plugin emits code that does not compile: %s", c.label, c.class, paren(c.why), firstLine(c.buildErr)), in)
	default:
		outcome += "compiles"
		if c.class == "illegal" {
			addViol(r, "C16/illegal-accepted", ruleKey(c), fmt.Sprintf("%s: documented-illegal (%s) but accepted without a diagnostic", c.label, c.why), in)
		}
	}
	r.Outcomes[outcome]++
}

func paren(s string) string {
	if s == "" {
		return ""
	}
	return ": " + s
}

// ruleKey groups cases by the documented rule they fall under (so that one finding covers a family).
func ruleKey(c *genCase) string {
	if c.why != "" {
		return c.why
	}
	return c.label
}

func c16Lattice(shape, chunk, chunks int) func(r *vp.InstResult) {
	return func(r *vp.InstResult) {
		var cases []*genCase
		for bits := 0; bits < 512; bits++ {
			if bits%chunks != chunk {
				continue
			}
			m := latticeMethod(bits, shape)
			class, why := classify(m)
			spec := gen.ServiceSpec{Pkg: fmt.Sprintf("l%d_%d", shape, bits), Service: "Svc", Messages: []string{"Req", "Resp", "Msg", "Custom"}, Methods: []gen.MethodSpec{m}}
			c := &genCase{spec: spec, class: class, why: why, label: shapes[shape].name + "/" + m.Label()}
			if err := runPlugins(c, "protoc-gen-gorums", nil); err != nil {
				r.Error = err.Error()
				return
			}
			cases = append(cases, c)
			r.Execs++
		}
		if err := compileAll(filepath.Join(buildDir, "scratch", fmt.Sprintf("lattice-%d-%d", shape, chunk)), cases); err != nil {
			r.Error = err.Error()
			return
		}
		for _, c := range cases {
			judge(r, c)
		}
		r.States, r.Steps = r.Execs, r.Execs
		r.Sample = map[string]any{"service": "one method M(Req) returns (Resp) with options quorumcall+async+per_node_arg+custom_return_type", "class": "legal", "expected": "accepted and compiles"}
	}
}

// legalMethods lists one method per legal combination.
func legalMethods() []gen.MethodSpec {
	var out []gen.MethodSpec
	for bits := 0; bits < 512; bits++ {
		m := latticeMethod(bits, 0)
		if c, _ := classify(m); c == "legal" {
			out = append(out, m)
		}
	}
	return out
}

func c16Pairs(chunk, chunks int, shared bool) func(r *vp.InstResult) {
	return func(r *vp.InstResult) {
		legal := legalMethods()
		var cases []*genCase
		k := 0
		for i, a := range legal {
			for j, b := range legal {
				k++
				if k%chunks != chunk {
					continue
				}
				a, b := a, b
				a.Name, b.Name = "First", "Second"
				msgs := []string{"Req", "Resp", "Custom"}
				if !shared {
					// distinct request / response / custom types per method
					b.In, b.Out = "Req2", "Resp2"
					if b.CustomRet != "" {
						b.CustomRet = "Custom2"
					}
					msgs = append(msgs, "Req2", "Resp2", "Custom2")
				}
				spec := gen.ServiceSpec{Pkg: fmt.Sprintf("p%v_%d_%d", shared, i, j), Service: "Svc", Messages: msgs, Methods: []gen.MethodSpec{a, b}}
				c := &genCase{spec: spec, class: "legal", label: fmt.Sprintf("pair(shared=%v)/%s|%s", shared, a.Label(), b.Label())}
				if err := runPlugins(c, "protoc-gen-gorums", nil); err != nil {
					r.Error = err.Error()
					return
				}
				cases = append(cases, c)
				r.Execs++
			}
		}
		if err := compileAll(filepath.Join(buildDir, "scratch", fmt.Sprintf("pairs-%v-%d", shared, chunk)), cases); err != nil {
			r.Error = err.Error()
			return
		}
		for _, c := range cases {
			judge(r, c)
		}
		r.States, r.Steps = r.Execs, r.Execs
		r.Sample = map[string]any{"service": "First: quorumcall+custom ; Second: correctable+sstream+pna, shared message types", "expected": "accepted and compiles (data types generated once)"}
	}
}

// reservedIdents reads the reserved message names from template_static.go.
func reservedIdents() []string {
	fset := token.NewFileSet()
	f, err := parser.ParseFile(fset, filepath.Join(repoDir, "cmd/protoc-gen-gorums/gengorums/template_static.go"), nil, 0)
	if err != nil {
		return nil
	}
	var out []string
	ast.Inspect(f, func(n ast.Node) bool {
		vs, ok := n.(*ast.ValueSpec)
		if !ok || len(vs.Names) != 1 || vs.Names[0].Name != "reservedIdents" || len(vs.Values) != 1 {
			return true
		}
		if cl, ok := vs.Values[0].(*ast.CompositeLit); ok {
			for _, e := range cl.Elts {
				if bl, ok := e.(*ast.BasicLit); ok {
					s, _ := strconv.Unquote(bl.Value)
					out = append(out, s)
				}
			}
		}
		return false
	})
	sort.Strings(out)
	return out
}

func c16Names(r *vp.InstResult) {
	var cases []*genCase
	qc := gen.MethodSpec{Name: "Read", In: "Req", Out: "Resp", Quorumcall: true}
	i := 0
	add := func(class, why, label string, spec gen.ServiceSpec) {
		spec.Pkg = fmt.Sprintf("n%d", i)
		i++
		c := &genCase{spec: spec, class: class, why: why, label: label}
		if err := runPlugins(c, "protoc-gen-gorums", nil); err != nil {
			r.Error = err.Error()
			return
		}
		cases = append(cases, c)
		r.Execs++
	}
	// reserved message names must be rejected
	for _, res := range reservedIdents() {
		add("illegal", "reserved message name", "message named "+res, gen.ServiceSpec{Service: "Svc", Messages: []string{"Req", "Resp", res}, Methods: []gen.MethodSpec{qc}})
	}
	// non-reserved spellings of message, service and method names must be accepted
	for _, n := range []string{"my_msg", "msg", "MSG", "Msg2", "Type", "Func", "Response2", "ZorumsRequest", "Value", "Req_Resp"} {
		m := qc
		m.Out = n
		add("legal", "", "response message named "+n, gen.ServiceSpec{Service: "Svc", Messages: []string{"Req", n}, Methods: []gen.MethodSpec{m}})
	}
	for _, n := range []string{"svc", "SVC", "my_service", "Storage2"} {
		add("legal", "", "service named "+n, gen.ServiceSpec{Service: n, Messages: []string{"Req", "Resp"}, Methods: []gen.MethodSpec{qc}})
	}
	for _, n := range []string{"read", "READ", "read_all", "Read2", "Get", "Do"} {
		for _, base := range []gen.MethodSpec{qc, {In: "Req", Out: "Resp", Quorumcall: true, Async: true}, {In: "Req", Out: "Resp", Correctable: true}, {In: "Req", Out: "Resp", Multicast: true}, {In: "Req", Out: "Resp"}} {
			m := base
			m.Name = n
			add("legal", "", "method named "+n+" ("+m.Label()+")", gen.ServiceSpec{Service: "Svc", Messages: []string{"Req", "Resp"}, Methods: []gen.MethodSpec{m}})
		}
	}
	// names that are neither documented as reserved nor obviously free: whatever the plugin does with them, it
	// must reject them with a diagnostic or emit code that compiles ("na": reject-or-compile)
	for _, n := range []string{"node", "quorum_spec", "configuration", "manager"} {
		add("na", "", "message whose Go name is reserved (proto name "+n+")", gen.ServiceSpec{Service: "Svc", Messages: []string{"Req", "Resp", n}, Methods: []gen.MethodSpec{qc}})
	}
	for _, n := range []string{"Node", "Manager", "Configuration", "QuorumSpec"} {
		add("na", "", "enum named "+n, gen.ServiceSpec{Service: "Svc", Messages: []string{"Req", "Resp"}, Enums: []string{n}, Methods: []gen.MethodSpec{qc}})
		add("na", "", "service named "+n, gen.ServiceSpec{Service: n, Messages: []string{"Req", "Resp"}, Methods: []gen.MethodSpec{qc}})
	}
	add("na", "", "message named like a generated future type (AsyncResp)", gen.ServiceSpec{Service: "Svc", Messages: []string{"Req", "Resp", "AsyncResp"}, Methods: []gen.MethodSpec{{Name: "Read", In: "Req", Out: "Resp", Quorumcall: true, Async: true}}})
	add("na", "", "message named like a generated correctable type (CorrectableResp)", gen.ServiceSpec{Service: "Svc", Messages: []string{"Req", "Resp", "CorrectableResp"}, Methods: []gen.MethodSpec{{Name: "Read", In: "Req", Out: "Resp", Correctable: true}}})
	for _, n := range []string{"Nodes", "Size", "NodeIDs", "Equal", "And", "Except"} {
		m := qc
		m.Name = n
		add("na", "", "quorum call named like a method of the configuration ("+n+")", gen.ServiceSpec{Service: "Svc", Messages: []string{"Req", "Resp"}, Methods: []gen.MethodSpec{m}})
	}
	for _, n := range []string{"ID", "Address", "LastErr", "Latency", "Host", "Port"} {
		add("na", "", "rpc named like a method of the node ("+n+")", gen.ServiceSpec{Service: "Svc", Messages: []string{"Req", "Resp"}, Methods: []gen.MethodSpec{{Name: n, In: "Req", Out: "Resp"}}})
	}
	// Go names that meet only after protogen's CamelCase conversion
	add("na", "", "message my_svc next to service MySvc", gen.ServiceSpec{Service: "MySvc", Messages: []string{"Req", "Resp", "my_svc"}, Methods: []gen.MethodSpec{qc}})
	add("na", "", "message StorageSvc next to service storage_svc", gen.ServiceSpec{Service: "storage_svc", Messages: []string{"Req", "Resp", "StorageSvc"}, Methods: []gen.MethodSpec{qc}})
	for _, base := range []gen.MethodSpec{qc, {In: "Req", Out: "Resp", Quorumcall: true, Async: true}, {In: "Req", Out: "Resp", Correctable: true}, {In: "Req", Out: "Resp", Multicast: true}, {In: "Req", Out: "Resp", Unicast: true}, {In: "Req", Out: "Resp"}} {
		a, b := base, base
		a.Name, b.Name = "read", "Read"
		add("na", "", "methods read and Read ("+base.Label()+")", gen.ServiceSpec{Service: "Svc", Messages: []string{"Req", "Resp"}, Methods: []gen.MethodSpec{a, b}})
		b.Name = "r_ead"
		add("na", "", "methods read and r_ead ("+base.Label()+")", gen.ServiceSpec{Service: "Svc", Messages: []string{"Req", "Resp"}, Methods: []gen.MethodSpec{a, b}})
	}
	// an enum next to the messages
	add("legal", "", "file with an enum", gen.ServiceSpec{Service: "Svc", Messages: []string{"Req", "Resp"}, Enums: []string{"Kind"}, Methods: []gen.MethodSpec{qc}})
	if err := compileAll(filepath.Join(buildDir, "scratch", "names"), cases); err != nil {
		r.Error = err.Error()
		return
	}
	for _, c := range cases {
		judge(r, c)
	}
	r.States, r.Steps = r.Execs, r.Execs
	r.Sample = map[string]any{"service": "message named Configuration next to a quorum call", "class": "illegal (reserved)", "expected": "rejected with a diagnostic"}
}

// c16Declared: the identifier alphabet is taken from the generator's own output. A service with all legal
// methods is generated once; every identifier that the emitted gorums file declares at package level
// (types, functions, variables, constants) then becomes, in turn, the name of an extra message of that same
// service. Whatever the plugin does with such a name - none of them is documented as reserved beyond the
// four of doc/ - it must reject it with a diagnostic or emit a package that compiles.
func c16Declared(r *vp.InstResult) {
	legal := legalMethods()
	mkSpec := func(pkg string, extra ...string) gen.ServiceSpec {
		spec := gen.ServiceSpec{Pkg: pkg, Service: "Svc", Messages: append([]string{"Req", "Resp", "Custom"}, extra...)}
		for i, m := range legal {
			m.Name = fmt.Sprintf("M%d", i)
			spec.Methods = append(spec.Methods, m)
		}
		return spec
	}
	base := &genCase{spec: mkSpec("declbase"), class: "legal", label: "service with all legal methods"}
	if err := runPlugins(base, "protoc-gen-gorums", nil); err != nil {
		r.Error = err.Error()
		return
	}
	r.Execs++
	idents := map[string]bool{}
	for name, content := range base.res.Files {
		f, err := parser.ParseFile(token.NewFileSet(), name, content, 0)
		if err != nil {
			continue // reported by the compile step
		}
		for _, d := range f.Decls {
			switch d := d.(type) {
			case *ast.FuncDecl:
				if d.Recv == nil {
					idents[d.Name.Name] = true
				}
			case *ast.GenDecl:
				for _, sp := range d.Specs {
					switch sp := sp.(type) {
					case *ast.TypeSpec:
						idents[sp.Name.Name] = true
					case *ast.ValueSpec:
						for _, n := range sp.Names {
							idents[n.Name] = true
						}
					}
				}
			}
		}
	}
	delete(idents, "_")
	var names []string
	for n := range idents {
		if n != "" && n[0] >= 'A' && n[0] <= 'Z' && gen.GoCamelCase(n) == n { // a message's Go name is exported CamelCase
			names = append(names, n)
		}
	}
	sort.Strings(names)
	cases := []*genCase{base}
	for i, n := range names {
		class, why := "na", ""
		for _, res := range reservedIdents() {
			if res == n {
				class, why = "illegal", "reserved message name"
			}
		}
		c := &genCase{spec: mkSpec(fmt.Sprintf("decl%d", i), n), class: class, why: why, label: "message named like the generated identifier " + n}
		if err := runPlugins(c, "protoc-gen-gorums", nil); err != nil {
			r.Error = err.Error()
			return
		}
		r.Execs++
		cases = append(cases, c)
	}
	if err := compileAll(filepath.Join(buildDir, "scratch", "declared"), cases); err != nil {
		r.Error = err.Error()
		return
	}
	for _, c := range cases {
		judge(r, c)
	}
	r.States, r.Steps = r.Execs, r.Execs
	r.Sample = map[string]any{"service": "all 22 legal methods plus a message named NewManager", "class": "not documented as reserved", "expected": "rejected with a diagnostic, or output that compiles", "identifiers_tried": len(names)}
}

func sameFiles(a, b map[string]string) (string, bool) {
	if len(a) != len(b) {
		return "different sets of files", false
	}
	for n, x := range a {
		y, ok := b[n]
		if !ok {
			return "file " + n + " missing", false
		}
		if x != y {
			la, lb := strings.Split(x, "\n"), strings.Split(y, "\n")
			for i := 0; i < len(la) && i < len(lb); i++ {
				if la[i] != lb[i] {
					return fmt.Sprintf("%s line %d: %q vs %q", n, i+1, strings.TrimSpace(la[i]), strings.TrimSpace(lb[i])), false
				}
			}
			return n + " differs in length", false
		}
	}
	return "", true
}

func c16Determinism(chunk, chunks int) func(r *vp.InstResult) {
	return func(r *vp.InstResult) {
		legal := legalMethods()
		var specs []struct {
			spec  gen.ServiceSpec
			label string
		}
		for i, a := range legal {
			a := a
			a.Name = "First"
			specs = append(specs, struct {
				spec  gen.ServiceSpec
				label string
			}{gen.ServiceSpec{Pkg: fmt.Sprintf("d%d", i), Service: "Svc", Messages: []string{"Req", "Resp", "Custom"}, Methods: []gen.MethodSpec{a}}, a.Label()})
			b := legal[(i*7+3)%len(legal)]
			b.Name = "Second"
			specs = append(specs, struct {
				spec  gen.ServiceSpec
				label string
			}{gen.ServiceSpec{Pkg: fmt.Sprintf("dd%d", i), Service: "Svc", Messages: []string{"Req", "Resp", "Custom"}, Methods: []gen.MethodSpec{a, b}}, a.Label() + "|" + b.Label()})
		}
		// the repository's own big service as well
		orders := []string{"", "rev", "rot1", "rot2", "rot3"}
		for k, s := range specs {
			if k%chunks != chunk {
				continue
			}
			base := &genCase{spec: s.spec}
			if err := runPlugins(base, "protoc-gen-gorums", nil); err != nil {
				r.Error = err.Error()
				return
			}
			r.Execs++
			for rep := 0; rep < 2; rep++ {
				c := &genCase{spec: s.spec, goRes: base.goRes}
				runPlugins(c, "protoc-gen-gorums", nil)
				r.Execs++
				if d, ok := sameFiles(base.res.Files, c.res.Files); !ok {
					addViol(r, "C16/nondeterministic-output", s.label, fmt.Sprintf("%s: two runs of the plugin on the same request differ: %s", s.label, d), nil)
				}
			}
			for _, o := range orders {
				c := &genCase{spec: s.spec, goRes: base.goRes}
				var env []string
				if o != "" {
					env = []string{"GOMC_MAPORDER=" + o}
				}
				if err := runPlugins(c, "protoc-gen-gorums-mc", env); err != nil {
					r.Error = err.Error()
					return
				}
				r.Execs++
				if d, ok := sameFiles(base.res.Files, c.res.Files); !ok {
					addViol(r, "C16/output-depends-on-map-order", s.label, fmt.Sprintf("%s: with map iteration order %q at the generator's map ranges the output differs: %s", s.label, o, d), nil)
				}
				r.Outcomes["order:"+o]++
			}
		}
		r.States, r.Steps = r.Execs, r.Execs
		r.Sample = map[string]any{"service": "two-method service", "runs": "3 plain runs + 5 runs with controlled map iteration orders {sorted, reversed, 3 rotations}", "expected": "byte-identical files"}
	}
}

// c16DetImports: determinism for a service whose request / response types come from several imported Go
// packages (the import-related parts of the output - reference declarations, import blocks - depend on more
// than one package only here): 3 plain runs and runs under every controlled map iteration order must give
// byte-identical files.
func c16DetImports(r *vp.InstResult) {
	pkgs := []string{"detimpa", "detimpb", "detimpc"}
	extra := map[string]*descriptorpb.FileDescriptorProto{}
	for k, v := range repoDescs() {
		extra[k] = v
	}
	var msgFiles []string
	for _, pkg := range pkgs {
		msgFile := &descriptorpb.FileDescriptorProto{
			Name:    proto.String(pkg + "/msgs.proto"),
			Package: proto.String(pkg),
			Syntax:  proto.String("proto3"),
			Options: &descriptorpb.FileOptions{GoPackage: proto.String("genmod/" + pkg)},
		}
		// distinct message names per package: the generated future / correctable types are named after the
		// result type without its package
		for _, m := range []string{"Req" + pkg[len(pkg)-1:], "Resp" + pkg[len(pkg)-1:]} {
			msgFile.MessageType = append(msgFile.MessageType, &descriptorpb.DescriptorProto{
				Name: proto.String(m),
				Field: []*descriptorpb.FieldDescriptorProto{{
					Name: proto.String("value"), Number: proto.Int32(1), JsonName: proto.String("value"),
					Label: descriptorpb.FieldDescriptorProto_LABEL_OPTIONAL.Enum(), Type: descriptorpb.FieldDescriptorProto_TYPE_STRING.Enum(),
				}},
			})
		}
		extra[msgFile.GetName()] = msgFile
		msgFiles = append(msgFiles, msgFile.GetName())
	}
	legal := legalMethods()
	for shift := 0; shift < 3; shift++ {
		spec := gen.ServiceSpec{Pkg: fmt.Sprintf("detimp%d", shift), Service: "Svc", Messages: []string{"Local"}}
		for i, m := range legal {
			m.Name = fmt.Sprintf("M%d", i)
			pin, pout := pkgs[(i+shift)%3], pkgs[(i/2+shift+1)%3]
			m.In = "." + pin + ".Req" + pin[len(pin)-1:]
			m.Out = "." + pout + ".Resp" + pout[len(pout)-1:]
			if i%5 == 4 {
				m.Out = ".google.protobuf.Empty"
			}
			if m.CustomRet != "" {
				m.CustomRet = "Local"
			}
			spec.Methods = append(spec.Methods, m)
		}
		fd := spec.File()
		fd.Dependency = append(fd.Dependency, msgFiles...)
		deps, err := gen.Deps(fd, extra)
		if err != nil {
			r.Error = err.Error()
			return
		}
		label := fmt.Sprintf("types from three imported packages (shift %d)", shift)
		base, err := gen.Run(plugin("protoc-gen-gorums"), nil, fd, deps, "")
		if err != nil {
			r.Error = err.Error()
			return
		}
		r.Execs++
		if base.Exit != 0 || base.Error != "" {
			diag, _ := base.Diagnostic()
			addViol(r, "C16/legal-rejected", label, fmt.Sprintf("%s: rejected: %s", label, firstLine(diag)), nil)
			continue
		}
		for rep := 0; rep < 2; rep++ {
			c, err := gen.Run(plugin("protoc-gen-gorums"), nil, fd, deps, "")
			r.Execs++
			if err != nil {
				r.Error = err.Error()
				return
			}
			if d, ok := sameFiles(base.Files, c.Files); !ok {
				addViol(r, "C16/nondeterministic-output", label, fmt.Sprintf("%s: two runs of the plugin on the same request differ: %s", label, d), nil)
			}
		}
		for _, o := range []string{"", "rev", "rot1", "rot2", "rot3"} {
			var env []string
			if o != "" {
				env = []string{"GOMC_MAPORDER=" + o}
			}
			c, err := gen.Run(plugin("protoc-gen-gorums-mc"), env, fd, deps, "")
			r.Execs++
			if err != nil {
				r.Error = err.Error()
				return
			}
			if d, ok := sameFiles(base.Files, c.Files); !ok {
				addViol(r, "C16/output-depends-on-map-order", label, fmt.Sprintf("%s: with map iteration order %q at the generator's map ranges the output differs: %s", label, o, d), nil)
			}
			r.Outcomes["order:"+o]++
		}
	}
	r.States, r.Steps = r.Execs, r.Execs
	r.Sample = map[string]any{"service": "22 legal methods whose request / response types are spread over three imported Go packages and emptypb", "runs": "3 plain runs + 5 runs with controlled map iteration orders", "expected": "byte-identical files"}
}

// c16MultiFile: one request that generates two files. The plugin must treat the files
// independently: each file's output equals what a request for that file alone produces.
func c16MultiFile(chunk, chunks int) func(r *vp.InstResult) {
	return func(r *vp.InstResult) {
		legal := legalMethods()
		single := map[int]map[string]string{}
		specOf := func(i int, pkg string) gen.ServiceSpec {
			m := legal[i]
			m.Name = "Read"
			return gen.ServiceSpec{Pkg: pkg, Service: "Svc", Messages: []string{"Req", "Resp", "Custom"}, Methods: []gen.MethodSpec{m}}
		}
		alone := func(i int, pkg string) (map[string]string, error) {
			c := &genCase{spec: specOf(i, pkg)}
			fd := c.spec.File()
			deps, err := gen.Deps(fd, repoDescs())
			if err != nil {
				return nil, err
			}
			res, err := gen.Run(plugin("protoc-gen-gorums"), nil, fd, deps, "")
			if err != nil {
				return nil, err
			}
			return res.Files, nil
		}
		k := 0
		for i := range legal {
			for j := range legal {
				k++
				if k%chunks != chunk {
					continue
				}
				a, b := specOf(i, "fa"), specOf(j, "fb")
				fa, fb := a.File(), b.File()
				deps, err := gen.Deps(fa, repoDescs())
				if err != nil {
					r.Error = err.Error()
					return
				}
				res, err := gen.RunMulti(plugin("protoc-gen-gorums"), nil, []*descriptorpb.FileDescriptorProto{fa, fb}, deps, "")
				if err != nil {
					r.Error = err.Error()
					return
				}
				r.Execs++
				label := fmt.Sprintf("two files in one request: %s then %s", legal[i].Label(), legal[j].Label())
				if res.Exit != 0 || res.Error != "" {
					diag, _ := res.Diagnostic()
					addViol(r, "C16/legal-rejected", label, fmt.Sprintf("%s: rejected: %s", label, firstLine(diag)), nil)
					continue
				}
				if single[i] == nil {
					if single[i], err = alone(i, "fa"); err != nil {
						r.Error = err.Error()
						return
					}
				}
				sb, err := alone(j, "fb")
				if err != nil {
					r.Error = err.Error()
					return
				}
				want := map[string]string{}
				for n, c := range single[i] {
					want[n] = c
				}
				for n, c := range sb {
					want[n] = c
				}
				if d, ok := sameFiles(want, res.Files); !ok {
					addViol(r, "C16/output-depends-on-other-files", legal[i].Label()+"|"+legal[j].Label(), fmt.Sprintf("%s: the output differs from generating each file alone: %s", label, d), nil)
				}
				r.Outcomes["same"]++
			}
		}
		r.States, r.Steps = r.Execs, r.Execs
		r.Sample = map[string]any{"request": "files fa.proto (Read: quorumcall) and fb.proto (Read: quorumcall+async) in one CodeGeneratorRequest", "expected": "each output file byte-identical to a single-file run"}
	}
}

// c16Imports: the request and response types of a service come from another proto file whose Go package has
// the same base name as a package the generated or the static code imports (fmt, gorums, encoding, ...). The
// plugin must emit code that compiles whatever local names protogen hands out.
func c16Imports(r *vp.InstResult) {
	// ... or like an identifier the generated bodies use locally (receivers, parameters, results)
	bases := []string{"encoding", "fmt", "gorums", "context", "proto", "protoreflect", "ordering", "grpc", "codes", "status", "emptypb", "sync", "time", "dev", "wire",
		"c", "n", "in", "req", "resp", "ctx", "err", "cd", "f", "r", "srv", "impl"}
	scratch := filepath.Join(buildDir, "scratch", "imports")
	os.RemoveAll(scratch)
	defer os.RemoveAll(scratch)
	type impCase struct {
		base  string
		files map[string]map[string]string // directory (relative to the module) -> file -> content
	}
	var cases []*impCase
	legal := legalMethods()
	for _, base := range bases {
		pkg := "imp" + base
		msgFile := &descriptorpb.FileDescriptorProto{
			Name:    proto.String(pkg + "/shared/msgs.proto"),
			Package: proto.String(pkg + "shared"),
			Syntax:  proto.String("proto3"),
			Options: &descriptorpb.FileOptions{GoPackage: proto.String("genmod/" + pkg + "/shared/" + base)},
		}
		for _, m := range []string{"Req", "Resp", "Custom"} {
			msgFile.MessageType = append(msgFile.MessageType, &descriptorpb.DescriptorProto{
				Name: proto.String(m),
				Field: []*descriptorpb.FieldDescriptorProto{{
					Name: proto.String("value"), Number: proto.Int32(1), JsonName: proto.String("value"),
					Label: descriptorpb.FieldDescriptorProto_LABEL_OPTIONAL.Enum(), Type: descriptorpb.FieldDescriptorProto_TYPE_STRING.Enum(),
				}},
			})
		}
		spec := gen.ServiceSpec{Pkg: pkg, Service: "Svc", Messages: []string{"Local"}}
		for i, m := range legal {
			m.Name = fmt.Sprintf("M%d", i)
			m.In, m.Out = "."+pkg+"shared.Req", "."+pkg+"shared.Resp"
			if m.CustomRet != "" {
				m.CustomRet = "Local"
			}
			spec.Methods = append(spec.Methods, m)
		}
		fd := spec.File()
		fd.Dependency = append(fd.Dependency, msgFile.GetName())
		extra := map[string]*descriptorpb.FileDescriptorProto{msgFile.GetName(): msgFile}
		for k, v := range repoDescs() {
			extra[k] = v
		}
		deps, err := gen.Deps(fd, extra)
		if err != nil {
			r.Error = err.Error()
			return
		}
		res, err := gen.Run(plugin("protoc-gen-gorums"), nil, fd, deps, "")
		if err != nil {
			r.Error = err.Error()
			return
		}
		r.Execs++
		if res.Exit != 0 || res.Error != "" {
			diag, _ := res.Diagnostic()
			addViol(r, "C16/legal-rejected", "types imported from a package named "+base, fmt.Sprintf("a service whose message types are imported from Go package %q is rejected: %s", "genmod/"+pkg+"/shared/"+base, firstLine(diag)), nil)
			continue
		}
		goSvc, err := gen.Run(plugin("protoc-gen-go"), nil, fd, deps, "")
		if err != nil {
			r.Error = err.Error()
			return
		}
		goMsg, err := gen.Run(plugin("protoc-gen-go"), nil, msgFile, nil, "")
		if err != nil {
			r.Error = err.Error()
			return
		}
		c := &impCase{base: base, files: map[string]map[string]string{pkg: {}, pkg + "/shared/" + base: {}}}
		for n, content := range res.Files {
			c.files[pkg][filepath.Base(n)] = content
		}
		for n, content := range goSvc.Files {
			c.files[pkg][filepath.Base(n)] = content
		}
		for n, content := range goMsg.Files {
			c.files[pkg+"/shared/"+base][filepath.Base(n)] = content
		}
		cases = append(cases, c)
	}
	// one scratch module for all of them
	if err := writeScratchModule(scratch); err != nil {
		r.Error = err.Error()
		return
	}
	for _, c := range cases {
		for dir, fs := range c.files {
			os.MkdirAll(filepath.Join(scratch, dir), 0o755)
			for n, content := range fs {
				os.WriteFile(filepath.Join(scratch, dir, n), []byte(content), 0o644)
			}
		}
	}
	cmd := exec.Command("go", "build", "./...")
	cmd.Dir = scratch
	cmd.Env = append(os.Environ(), "GOFLAGS=-mod=mod", "GOPROXY=off", "GOSUMDB=off", "GOTOOLCHAIN=local")
	out, err := cmd.CombinedOutput()
	if err != nil {
		text := string(out)
		idx := pkgErrRe.FindAllStringSubmatchIndex(text, -1)
		if len(idx) == 0 {
			r.Error = "go build of the generated packages failed without naming a package: " + firstLine(text)
			return
		}
		for i, m := range idx {
			end := len(text)
			if i+1 < len(idx) {
				end = idx[i+1][0]
			}
			pkgPath := text[m[2]:m[3]]
			for _, c := range cases {
				if pkgPath == "imp"+c.base {
					addViol(r, "C16/emits-code-that-does-not-compile", "types imported from a package named "+c.base,
						fmt.Sprintf("the plugin accepted a service whose message types are imported from a Go package named %q, but the emitted code does not compile: %s", c.base, firstLine(strings.TrimSpace(text[m[1]:end]))), nil)
				}
			}
		}
	}
	for _, c := range cases {
		r.Outcomes["imported package named "+c.base]++
	}
	r.States, r.Steps = r.Execs, r.Execs
	r.Sample = map[string]any{"service": "22 legal methods whose request / response types live in Go package genmod/impencoding/shared/encoding", "expected": "accepted, and the output compiles"}
}

func c16Zorums(r *vp.InstResult) {
	// determinism and totality on the repository's own service definitions (dev and normal mode)
	dirs, err := findGenDirs()
	if err != nil {
		r.Error = err.Error()
		return
	}
	for _, d := range dirs {
		base, _, err := regenerate(d, "protoc-gen-gorums", nil)
		if err != nil {
			r.Error = err.Error()
			return
		}
		r.Execs++
		if base.Exit != 0 || base.Error != "" {
			diag, _ := base.Diagnostic()
			addViol(r, "C16/legal-rejected", d.dir, fmt.Sprintf("%s: the repository's own proto file is rejected: %s", d.dir, firstLine(diag)), nil)
			continue
		}
		for _, o := range []string{"", "rev", "rot1", "rot2"} {
			var env []string
			if o != "" {
				env = []string{"GOMC_MAPORDER=" + o}
			}
			res, _, err := regenerate(d, "protoc-gen-gorums-mc", env)
			if err != nil {
				r.Error = err.Error()
				return
			}
			r.Execs++
			if diff, ok := sameFiles(base.Files, res.Files); !ok {
				addViol(r, "C16/output-depends-on-map-order", d.dir, fmt.Sprintf("%s: with map iteration order %q the output differs: %s", d.dir, o, diff), nil)
			}
		}
		r.Outcomes[d.dir]++
	}
	r.States, r.Steps = r.Execs, r.Execs
	r.Sample = map[string]any{"input": "cmd/protoc-gen-gorums/dev/zorums.proto (dev mode)", "runs": "plain + 4 controlled map orders"}
}

func init() {
	checks["C16"] = &check{
		rule:        "small-scope enumeration of proto service definitions fed to the plugin built from the working tree (requests built from synthesised descriptors, no protoc): (a) single-method services over the full lattice of 512 option combinations {quorumcall, async, correctable, multicast, unicast, per_node_arg, custom_return_type, client stream, server stream} x 4 message shapes {local, imported Empty in, imported Empty out, same message}; (b) two-method services over all 484 ordered pairs of the 22 legal combinations with shared and with distinct message types; (c) reserved and unusual identifier spellings for messages, services, methods, plus an enum; every identifier the emitted file of a service with all legal methods declares at package level, as the name of an extra message; services whose request / response types are imported from a Go package named like one the generated or static code imports (encoding, fmt, gorums, context, proto, ...); (d) determinism: 3 plain runs and runs of a plugin whose map ranges are routed through a controlled iteration order {sorted, reversed, rotations} on legal single / two-method services, on a service whose types are spread over three imported packages, and on every proto file of the repository; (e) all 484 ordered pairs of legal single-method files with the same method name requested in ONE CodeGeneratorRequest, each output compared with a single-file run; oracle: legality model of doc/method-options.md - legal must be accepted and compile (go build of all emitted packages together with protoc-gen-go output against /repo), documented-illegal and reserved names must end with a diagnostic (not a Go panic), everything else must be rejected or compile; outputs byte-identical across runs and orders; an outcome is (class, plugin result class)",
		assumptions: []string{"descriptors are synthesised programmatically with gorums' extension numbers; protoc's own validation is not in the loop", "'compiles' = go build of the generated package with the protoc-gen-go output of the same file against /repo's runtime"},
		gen: func(tier string) []instance {
			var out []instance
			chunks := 4
			for s := range shapes {
				for c := 0; c < chunks; c++ {
					out = append(out, instance{fmt.Sprintf("lattice/shape=%s/chunk%d-of-%d", shapes[s].name, c, chunks), c16Lattice(s, c, chunks)})
				}
			}
			pc := 8
			for c := 0; c < pc; c++ {
				out = append(out, instance{fmt.Sprintf("pairs/shared-types/chunk%d-of-%d", c, pc), c16Pairs(c, pc, true)})
				if tier == "thorough" || c < 2 {
					out = append(out, instance{fmt.Sprintf("pairs/distinct-types/chunk%d-of-%d", c, pc), c16Pairs(c, pc, false)})
				}
			}
			out = append(out, instance{"names", c16Names})
			out = append(out, instance{"imported-package-names", c16Imports})
			out = append(out, instance{"names-declared-by-the-generated-code", c16Declared})
			dc := 4
			for c := 0; c < dc; c++ {
				out = append(out, instance{fmt.Sprintf("determinism/chunk%d-of-%d", c, dc), c16Determinism(c, dc)})
			}
			out = append(out, instance{"determinism/repository-protos", c16Zorums})
			out = append(out, instance{"determinism/types-from-several-imported-packages", c16DetImports})
			for c := 0; c < 4; c++ {
				out = append(out, instance{fmt.Sprintf("multi-file-request/chunk%d-of-4", c), c16MultiFile(c, 4)})
			}
			return out
		},
	}
}
