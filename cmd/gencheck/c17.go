package main

import (
	"fmt"
	"go/ast"
	"go/parser"
	"go/token"
	"go/types"
	"os"
	"os/exec"
	"path/filepath"
	"regexp"
	"sort"
	"strconv"
	"strings"

	"google.golang.org/protobuf/encoding/protowire"
	"google.golang.org/protobuf/types/descriptorpb"

	"verif/gen"
	"verif/vp"
)

// C17 (static part): committed generated code is current, and every stub binds its method correctly.

type genDir struct {
	dir   string // relative to the repository
	pbgo  string // the protoc-gen-go file carrying the descriptor
	files []string
	dev   bool
}

func findGenDirs() ([]genDir, error) {
	byDir := map[string]*genDir{}
	err := filepath.Walk(repoDir, func(p string, fi os.FileInfo, err error) error {
		if err != nil {
			return nil
		}
		if fi.IsDir() && (fi.Name() == ".git" || fi.Name() == "node_modules") {
			return filepath.SkipDir
		}
		if strings.HasSuffix(p, "_gorums.pb.go") {
			rel, _ := filepath.Rel(repoDir, filepath.Dir(p))
			d := byDir[rel]
			if d == nil {
				d = &genDir{dir: rel}
				byDir[rel] = d
			}
			d.files = append(d.files, filepath.Base(p))
		}
		return nil
	})
	if err != nil {
		return nil, err
	}
	var out []genDir
	for _, d := range byDir {
		ents, _ := os.ReadDir(filepath.Join(repoDir, d.dir))
		for _, e := range ents {
			n := e.Name()
			if strings.HasSuffix(n, ".pb.go") && !strings.HasSuffix(n, "_gorums.pb.go") && !strings.HasSuffix(n, "_grpc.pb.go") {
				fd, err := gen.RawDescFromGoFile(filepath.Join(repoDir, d.dir, n))
				if err == nil && len(fd.Service) > 0 {
					d.pbgo = n
				}
			}
		}
		d.dev = strings.HasSuffix(d.dir, "cmd/protoc-gen-gorums/dev")
		sort.Strings(d.files)
		out = append(out, *d)
	}
	sort.Slice(out, func(i, j int) bool { return out[i].dir < out[j].dir })
	return out, nil
}

func regenerate(d genDir, pluginName string, env []string) (*gen.Result, *descriptorpb.FileDescriptorProto, error) {
	if d.pbgo == "" {
		return nil, nil, fmt.Errorf("%s: no .pb.go file with a service descriptor", d.dir)
	}
	fd, err := gen.RawDescFromGoFile(filepath.Join(repoDir, d.dir, d.pbgo))
	if err != nil {
		return nil, nil, err
	}
	extra, err := gen.RepoDescriptors(repoDir)
	if err != nil {
		return nil, nil, err
	}
	deps, err := gen.Deps(fd, extra)
	if err != nil {
		return nil, nil, err
	}
	param := ""
	if d.dev {
		param = "dev=true"
	}
	res, err := gen.Run(plugin(pluginName), env, fd, deps, param)
	return res, fd, err
}

func c17Current(d genDir) func(r *vp.InstResult) {
	return func(r *vp.InstResult) {
		res, _, err := regenerate(d, "protoc-gen-gorums", nil)
		if err != nil {
			r.Error = err.Error()
			return
		}
		if diag, _ := res.Diagnostic(); res.Exit != 0 || res.Error != "" {
			addViol(r, "C17/regeneration-fails", d.dir, fmt.Sprintf("%s: the plugin built from the working tree rejects the package's own proto file: %s", d.dir, firstLine(diag)), nil)
			return
		}
		regen := map[string]string{}
		for name, content := range res.Files {
			regen[filepath.Base(name)] = content
		}
		for _, f := range d.files {
			r.Execs++
			r.States++
			committed, err := os.ReadFile(filepath.Join(repoDir, d.dir, f))
			if err != nil {
				r.Error = err.Error()
				return
			}
			re, ok := regen[f]
			if !ok {
				addViol(r, "C17/not-regenerated", d.dir+"/"+f, fmt.Sprintf("%s/%s is committed but the current templates do not produce it", d.dir, f), nil)
				continue
			}
			a, err1 := gen.NormalizeGo(committed)
			b, err2 := gen.NormalizeGo([]byte(re))
			if err1 != nil || err2 != nil {
				addViol(r, "C17/unparsable", d.dir+"/"+f, fmt.Sprintf("%s/%s: committed parse error %v, regenerated parse error %v", d.dir, f, err1, err2), nil)
				continue
			}
			if a != b {
				addViol(r, "C17/stale-generated-file", d.dir+"/"+f, fmt.Sprintf("%s/%s differs from what the current templates generate (comments aside): %s", d.dir, f, gen.FirstDiff(a, b)), nil)
			}
			r.Outcomes[d.dir+"/"+f] = 1
			delete(regen, f)
		}
		for f := range regen {
			addViol(r, "C17/missing-generated-file", d.dir+"/"+f, fmt.Sprintf("the current templates generate %s/%s, which is not committed", d.dir, f), nil)
		}
		r.Steps = r.Execs
		r.Sample = map[string]any{"directory": d.dir, "files": d.files}
	}
}

func c17Bundle(r *vp.InstResult) {
	static := filepath.Join(repoDir, "cmd/protoc-gen-gorums/gengorums/template_static.go")
	committed, err := os.ReadFile(static)
	if err != nil {
		r.Error = err.Error()
		return
	}
	tmp, err := os.CreateTemp(buildDir, "template_static-*.go")
	if err != nil {
		r.Error = err.Error()
		return
	}
	defer os.Remove(tmp.Name())
	tmp.Write(committed)
	tmp.Close()
	cmd := exec.Command(plugin("protoc-gen-gorums"), "--bundle="+tmp.Name())
	cmd.Dir = repoDir
	out, err := cmd.CombinedOutput()
	if err != nil {
		addViol(r, "C17/bundle-fails", "template_static.go", fmt.Sprintf("bundling the static sources fails: %v: %s", err, firstLine(string(out))), nil)
		return
	}
	bundled, _ := os.ReadFile(tmp.Name())
	a, err1 := gen.NormalizeGo(committed)
	b, err2 := gen.NormalizeGo(bundled)
	r.Execs, r.States, r.Steps = 1, 1, 1
	if err1 != nil || err2 != nil {
		addViol(r, "C17/unparsable", "template_static.go", fmt.Sprintf("parse errors: %v %v", err1, err2), nil)
		return
	}
	if a != b {
		addViol(r, "C17/stale-static-bundle", "template_static.go", "template_static.go differs from the bundle of the static sources in cmd/protoc-gen-gorums/dev: "+gen.FirstDiff(a, b), nil)
	}
	r.Outcomes["bundle"] = 1
	r.Sample = map[string]any{"file": "cmd/protoc-gen-gorums/gengorums/template_static.go"}
}

// ---- static binding ----

type methodOpts struct {
	quorumcall, async, correctable, multicast, unicast, perNode bool
	custom                                                      string
}

func optsOf(m *descriptorpb.MethodDescriptorProto) methodOpts {
	var o methodOpts
	if m.Options == nil {
		return o
	}
	b := m.Options.ProtoReflect().GetUnknown()
	for len(b) > 0 {
		num, typ, n := protowire.ConsumeTag(b)
		if n < 0 {
			break
		}
		b = b[n:]
		switch typ {
		case protowire.VarintType:
			v, n := protowire.ConsumeVarint(b)
			if n < 0 {
				return o
			}
			b = b[n:]
			on := v != 0
			switch num {
			case gen.ExtUnicast:
				o.unicast = on
			case gen.ExtMulticast:
				o.multicast = on
			case gen.ExtQuorumcall:
				o.quorumcall = on
			case gen.ExtCorrectable:
				o.correctable = on
			case gen.ExtAsync:
				o.async = on
			case gen.ExtPerNodeArg:
				o.perNode = on
			}
		case protowire.BytesType:
			v, n := protowire.ConsumeBytes(b)
			if n < 0 {
				return o
			}
			b = b[n:]
			if num == gen.ExtCustomRet {
				o.custom = string(v)
			}
		default:
			n := protowire.ConsumeFieldValue(num, typ, b)
			if n < 0 {
				return o
			}
			b = b[n:]
		}
	}
	return o
}

func (o methodOpts) entryPoint() string {
	switch {
	case o.quorumcall && o.async:
		return "AsyncCall"
	case o.quorumcall:
		return "QuorumCall"
	case o.correctable:
		return "CorrectableCall"
	case o.multicast:
		return "Multicast"
	case o.unicast:
		return "Unicast"
	}
	return "RPCCall"
}

type stubInfo struct {
	methodLit    string
	entry        string
	perNode      bool
	serverStream bool
	recv         string
	result       string // the stub's (first) result type, e.g. *AsyncResp
}

// futureGet maps a generated future / correctable type to the value type its typed Get returns.
var futureGet map[string]string

// analyse extracts, from generated sources, the client stubs and the server registrations.
func analyse(sources map[string]string) (stubs map[string]*stubInfo, handlers map[string]string, err error) {
	stubs, handlers = map[string]*stubInfo{}, map[string]string{}
	futureGet = map[string]string{}
	fset := token.NewFileSet()
	for name, src := range sources {
		f, perr := parser.ParseFile(fset, name, src, 0)
		if perr != nil {
			return nil, nil, perr
		}
		for _, decl := range f.Decls {
			fn, ok := decl.(*ast.FuncDecl)
			if !ok || fn.Body == nil {
				continue
			}
			if fn.Recv != nil && len(fn.Recv.List) == 1 {
				recv := exprName(fn.Recv.List[0].Type)
				if fn.Name.Name == "Get" && (strings.HasPrefix(recv, "Async") || strings.HasPrefix(recv, "Correctable")) && fn.Type.Results != nil && len(fn.Type.Results.List) > 0 {
					futureGet[recv] = types.ExprString(fn.Type.Results.List[0].Type)
				}
				if recv != "Configuration" && recv != "Node" {
					continue
				}
				si := &stubInfo{recv: recv}
				if fn.Type.Results != nil && len(fn.Type.Results.List) > 0 {
					si.result = types.ExprString(fn.Type.Results.List[0].Type)
				}
				ast.Inspect(fn.Body, func(n ast.Node) bool {
					switch x := n.(type) {
					case *ast.KeyValueExpr:
						if k, ok := x.Key.(*ast.Ident); ok {
							if k.Name == "Method" {
								if bl, ok := x.Value.(*ast.BasicLit); ok {
									si.methodLit, _ = strconv.Unquote(bl.Value)
								}
							}
							if k.Name == "ServerStream" {
								if id, ok := x.Value.(*ast.Ident); ok && id.Name == "true" {
									si.serverStream = true
								}
							}
						}
					case *ast.AssignStmt:
						for _, l := range x.Lhs {
							if s, ok := l.(*ast.SelectorExpr); ok && s.Sel.Name == "PerNodeArgFn" {
								si.perNode = true
							}
						}
					case *ast.CallExpr:
						if s, ok := x.Fun.(*ast.SelectorExpr); ok {
							switch s.Sel.Name {
							case "QuorumCall", "AsyncCall", "CorrectableCall", "Multicast", "Unicast", "RPCCall":
								if inner, ok := s.X.(*ast.SelectorExpr); ok && (inner.Sel.Name == "RawConfiguration" || inner.Sel.Name == "RawNode") {
									si.entry = s.Sel.Name
								}
							}
						}
					}
					return true
				})
				if si.methodLit != "" {
					stubs[fn.Name.Name] = si
				}
				continue
			}
			// server registration
			ast.Inspect(fn.Body, func(n ast.Node) bool {
				call, ok := n.(*ast.CallExpr)
				if !ok {
					return true
				}
				s, ok := call.Fun.(*ast.SelectorExpr)
				if !ok || s.Sel.Name != "RegisterHandler" || len(call.Args) != 2 {
					return true
				}
				bl, ok := call.Args[0].(*ast.BasicLit)
				if !ok {
					return true
				}
				lit, _ := strconv.Unquote(bl.Value)
				impl := ""
				ast.Inspect(call.Args[1], func(m ast.Node) bool {
					if c2, ok := m.(*ast.CallExpr); ok {
						if s2, ok := c2.Fun.(*ast.SelectorExpr); ok {
							if id, ok := s2.X.(*ast.Ident); ok && id.Name == "impl" {
								impl = s2.Sel.Name
							}
						}
					}
					return true
				})
				handlers[lit] = impl
				return true
			})
		}
	}
	return stubs, handlers, nil
}

func exprName(e ast.Expr) string {
	switch x := e.(type) {
	case *ast.StarExpr:
		return exprName(x.X)
	case *ast.Ident:
		return x.Name
	}
	return ""
}

// checkBinding compares stubs and registrations with the descriptor.
func checkBinding(r *vp.InstResult, where string, fd *descriptorpb.FileDescriptorProto, sources map[string]string) {
	stubs, handlers, err := analyse(sources)
	if err != nil {
		addViol(r, "C17/unparsable", where, fmt.Sprintf("%s: %v", where, err), nil)
		return
	}
	for _, svc := range fd.Service {
		for _, m := range svc.Method {
			r.Execs++
			full := fmt.Sprintf("%s.%s.%s", fd.GetPackage(), svc.GetName(), m.GetName())
			o := optsOf(m)
			goName := goCamelCase(m.GetName())
			st := stubs[goName]
			key := where + ":" + goName
			if st == nil {
				addViol(r, "C17/stub-missing", key, fmt.Sprintf("%s: no client stub for %s", where, full), nil)
				continue
			}
			if st.methodLit != full {
				addViol(r, "C17/stub-method-name", key, fmt.Sprintf("%s: client stub %s sends under %q, the method is %q", where, goName, st.methodLit, full), nil)
			}
			if impl, ok := handlers[full]; !ok {
				addViol(r, "C17/handler-missing", key, fmt.Sprintf("%s: no server registration listens on %q", where, full), nil)
			} else if impl != goName {
				addViol(r, "C17/handler-binding", key, fmt.Sprintf("%s: the registration for %q calls impl.%s", where, full, impl), nil)
			}
			if want := o.entryPoint(); st.entry != want {
				addViol(r, "C17/call-type", key, fmt.Sprintf("%s: stub %s uses %s, the declared options require %s", where, goName, st.entry, want), nil)
			}
			wantRecv := "Configuration"
			if o.entryPoint() == "RPCCall" || o.entryPoint() == "Unicast" {
				wantRecv = "Node"
			}
			if st.recv != wantRecv {
				addViol(r, "C17/call-type", key, fmt.Sprintf("%s: stub %s is a method of %s, expected %s", where, goName, st.recv, wantRecv), nil)
			}
			if o.perNode && !st.perNode && (o.quorumcall || o.correctable || o.multicast) {
				addViol(r, "C17/per-node-arg", key, fmt.Sprintf("%s: %s declares per_node_arg but the stub does not pass a per-node function", where, goName), nil)
			}
			if !o.perNode && st.perNode {
				addViol(r, "C17/per-node-arg", key, fmt.Sprintf("%s: %s passes a per-node function without per_node_arg", where, goName), nil)
			}
			if out := strings.TrimPrefix(m.GetOutputType(), "."); ((o.quorumcall && o.async) || o.correctable) &&
				(o.custom != "" || strings.HasPrefix(out, fd.GetPackage()+".") || out == "google.protobuf.Empty") {
				// (for other imported types the Go package name is not derivable from the proto name)
				// the typed Get of the future / correctable the stub returns yields the method's own result type
				want := o.custom
				if want == "" {
					want = goTypeOf(fd, m.GetOutputType())
				}
				if got, ok := futureGet[strings.TrimPrefix(st.result, "*")]; !ok {
					addViol(r, "C17/result-type", key, fmt.Sprintf("%s: stub %s returns %s, which has no typed Get", where, goName, st.result), nil)
				} else if got != "*"+want {
					addViol(r, "C17/result-type", key, fmt.Sprintf("%s: stub %s returns %s whose Get yields %s, but the method's result type is *%s (a reply of that type cannot be converted: the generated Get asserts the other type)", where, goName, st.result, got, want), nil)
				}
			}
			if m.GetServerStreaming() != st.serverStream && o.correctable {
				addViol(r, "C17/server-stream", key, fmt.Sprintf("%s: %s server streaming=%v but the stub sets ServerStream=%v", where, goName, m.GetServerStreaming(), st.serverStream), nil)
			}
			r.Outcomes[o.entryPoint()+"/"+fmt.Sprint(o.perNode)+"/"+fmt.Sprint(o.custom != "")+"/"+fmt.Sprint(m.GetServerStreaming())]++
		}
	}
	// nothing listens on a name that no method has
	names := map[string]bool{}
	for _, svc := range fd.Service {
		for _, m := range svc.Method {
			names[fmt.Sprintf("%s.%s.%s", fd.GetPackage(), svc.GetName(), m.GetName())] = true
		}
	}
	for lit := range handlers {
		if !names[lit] {
			addViol(r, "C17/handler-unknown-method", where+":"+lit, fmt.Sprintf("%s: a handler is registered for %q, which is not a method of the service", where, lit), nil)
		}
	}
}

// goTypeOf is the Go type expression the generated package uses for a message type: the Go name for a type of
// the file's own package, emptypb.Empty for the well-known Empty, otherwise <last package element>.<Go name>.
func goTypeOf(fd *descriptorpb.FileDescriptorProto, full string) string {
	full = strings.TrimPrefix(full, ".")
	if pkg := fd.GetPackage(); strings.HasPrefix(full, pkg+".") {
		return goCamelCase(strings.TrimPrefix(full, pkg+"."))
	}
	if full == "google.protobuf.Empty" {
		return "emptypb.Empty"
	}
	i := strings.LastIndexByte(full, '.')
	pkg := full[:i]
	if j := strings.LastIndexByte(pkg, '.'); j >= 0 {
		pkg = pkg[j+1:]
	}
	return pkg + "." + goCamelCase(full[i+1:])
}

// goCamelCase is protoc-gen-go's identifier mangling (google.golang.org/protobuf/internal/strs).
func goCamelCase(s string) string {
	var b []byte
	for i := 0; i < len(s); i++ {
		c := s[i]
		switch {
		case c == '.' && i+1 < len(s) && isLower(s[i+1]):
		case c == '.':
			b = append(b, '_')
		case c == '_' && (i == 0 || s[i-1] == '.'):
			b = append(b, 'X')
		case c == '_' && i+1 < len(s) && isLower(s[i+1]):
		case isDigit(c):
			b = append(b, c)
		default:
			if isLower(c) {
				c -= 'a' - 'A'
			}
			b = append(b, c)
			for ; i+1 < len(s) && isLower(s[i+1]); i++ {
				b = append(b, s[i+1])
			}
		}
	}
	return string(b)
}

func isLower(c byte) bool { return 'a' <= c && c <= 'z' }
func isDigit(c byte) bool { return '0' <= c && c <= '9' }

// c17Synth checks the binding of freshly generated stubs for synthesised services whose
// identifiers are not already Go CamelCase (the repository's own proto files all are).
func c17Synth(r *vp.InstResult) {
	bases := []gen.MethodSpec{
		{In: "Req", Out: "Resp"},
		{In: "Req", Out: "Resp", Quorumcall: true},
		{In: "Req", Out: "Resp", Quorumcall: true, PerNodeArg: true, CustomRet: "Custom"},
		{In: "Req", Out: "Resp", Quorumcall: true, Async: true},
		{In: "Req", Out: "Resp", Correctable: true},
		{In: "Req", Out: "Resp", Correctable: true, ServerStream: true, PerNodeArg: true},
		{In: "Req", Out: "Resp", Multicast: true},
		{In: "Req", Out: "Resp", Multicast: true, PerNodeArg: true},
		{In: "Req", Out: "Resp", Unicast: true},
	}
	names := []string{"read_value", "readAsync", "read", "READ", "Read2", "get_x_y", "Read_Value", "x"}
	k := 0
	for si, svc := range []string{"Storage", "my_service", "svc"} {
		for ni, n := range names {
			var ms []gen.MethodSpec
			for bi, b := range bases {
				m := b
				m.Name = n
				if bi > 0 {
					m.Name = fmt.Sprintf("%s_%d", n, bi)
					if ni%2 == 1 {
						m.Name = fmt.Sprintf("%sV%d", n, bi)
					}
				}
				ms = append(ms, m)
			}
			spec := gen.ServiceSpec{Pkg: fmt.Sprintf("b%d_%d", si, ni), Service: svc, Messages: []string{"Req", "Resp", "Custom"}, Methods: ms}
			c := &genCase{spec: spec}
			if err := runPlugins(c, "protoc-gen-gorums", nil); err != nil {
				r.Error = err.Error()
				return
			}
			k++
			if c.res.Exit != 0 || c.res.Error != "" {
				diag, _ := c.res.Diagnostic()
				addViol(r, "C16/legal-rejected", spec.Pkg, fmt.Sprintf("service %s with methods named like %q is rejected: %s", svc, n, firstLine(diag)), nil)
				continue
			}
			src := map[string]string{}
			for name, content := range c.res.Files {
				src[filepath.Base(name)] = content
			}
			checkBinding(r, fmt.Sprintf("synthesised service %s / methods %s*", svc, n), spec.File(), src)
		}
	}
	// result types with the same Go name from two packages: a local message Empty and google.protobuf.Empty
	for oi, outs := range [][2]string{{"Empty", ".google.protobuf.Empty"}, {".google.protobuf.Empty", "Empty"}} {
		for bi, b := range []gen.MethodSpec{{Quorumcall: true, Async: true}, {Correctable: true}, {Correctable: true, ServerStream: true}} {
			a, c2 := b, b
			a.Name, a.In, a.Out = "First", "Req", outs[0]
			c2.Name, c2.In, c2.Out = "Second", "Req", outs[1]
			spec := gen.ServiceSpec{Pkg: fmt.Sprintf("same%d_%d", oi, bi), Service: "Svc", Messages: []string{"Req", "Empty"}, Methods: []gen.MethodSpec{a, c2}}
			c := &genCase{spec: spec}
			if err := runPlugins(c, "protoc-gen-gorums", nil); err != nil {
				r.Error = err.Error()
				return
			}
			if c.res.Exit != 0 || c.res.Error != "" {
				r.Outcomes["same-named result types: rejected with a diagnostic"]++
				continue // a diagnostic is an acceptable answer to a combination the generator cannot express
			}
			src := map[string]string{}
			for name, content := range c.res.Files {
				src[filepath.Base(name)] = content
			}
			checkBinding(r, fmt.Sprintf("synthesised service with result types %s and %s (%s)", outs[0], outs[1], b.Label()), spec.File(), src)
		}
	}
	r.States, r.Steps = r.Execs, r.Execs
	r.Sample = map[string]any{"service": "my_service", "method": "read_value_2 (quorumcall+per_node_arg+custom_return_type)", "checked": "stub ReadValue_2 sends under pkg.my_service.read_value_2 and the server registration listens on the same name"}
}

// c17MultiFile: two proto files with the same service and method names but different gorums options are
// generated in ONE plugin run (protoc is commonly invoked with several files). Every stub of either file
// must use the call type and options declared for its own method.
func c17MultiFile(r *vp.InstResult) {
	legal := legalMethods()
	for i := range legal {
		for _, j := range []int{(i*7 + 3) % len(legal), (i + 1) % len(legal)} {
			if i == j {
				continue
			}
			specs := [2]gen.ServiceSpec{}
			var fds []*descriptorpb.FileDescriptorProto
			for k, idx := range []int{i, j} {
				m := legal[idx]
				m.Name = "Write"
				specs[k] = gen.ServiceSpec{Pkg: fmt.Sprintf("storagev%d", k+1), Service: "Storage", Messages: []string{"Req", "Resp", "Custom"}, Methods: []gen.MethodSpec{m}}
				fds = append(fds, specs[k].File())
			}
			deps, err := gen.Deps(fds[0], repoDescs())
			if err != nil {
				r.Error = err.Error()
				return
			}
			res, err := gen.RunMulti(plugin("protoc-gen-gorums"), nil, fds, deps, "")
			if err != nil {
				r.Error = err.Error()
				return
			}
			if res.Exit != 0 || res.Error != "" {
				diag, _ := res.Diagnostic()
				addViol(r, "C16/legal-rejected", "two files in one run", fmt.Sprintf("two files in one run (%s, %s) rejected: %s", legal[i].Label(), legal[j].Label(), firstLine(diag)), nil)
				continue
			}
			for k := range specs {
				src := map[string]string{}
				for name, content := range res.Files {
					if strings.HasPrefix(name, specs[k].Pkg+"/") || strings.Contains(name, "/"+specs[k].Pkg+"/") {
						src[filepath.Base(name)] = content
					}
				}
				if len(src) == 0 {
					addViol(r, "C17/stub-missing", "two files in one run", fmt.Sprintf("no output for %s (files: %d)", specs[k].Pkg, len(res.Files)), nil)
					continue
				}
				checkBinding(r, fmt.Sprintf("file %d of two generated in one run (%s | %s)", k+1, legal[i].Label(), legal[j].Label()), fds[k], src)
			}
		}
	}
	r.States, r.Steps = r.Execs, r.Execs
	r.Sample = map[string]any{"request": "storagev1.Storage.Write (quorumcall) and storagev2.Storage.Write (multicast+per_node_arg) in one CodeGeneratorRequest", "checked": "each file's stub uses its own method's call type, options and name"}
}

// c17Sibling: the custom return type of a method is declared in ANOTHER proto file of the same Go package
// (or is a hand-written type of that package): the option's value is a Go type name of the generated package,
// so the quorum function and the stub must use it whichever file declares it.
func c17Sibling(r *vp.InstResult) {
	bases := []gen.MethodSpec{
		{Name: "QC", In: "Req", Out: "Resp", Quorumcall: true, CustomRet: "State"},
		{Name: "QCPer", In: "Req", Out: "Resp", Quorumcall: true, PerNodeArg: true, CustomRet: "State"},
		{Name: "QCAsync", In: "Req", Out: "Resp", Quorumcall: true, Async: true, CustomRet: "State"},
		{Name: "Corr", In: "Req", Out: "Resp", Correctable: true, CustomRet: "State"},
		{Name: "CorrStream", In: "Req", Out: "Resp", Correctable: true, ServerStream: true, CustomRet: "State"},
	}
	for _, where := range []string{"same file", "sibling file of the package"} {
		msgs := []string{"Req", "Resp"}
		if where == "same file" {
			msgs = append(msgs, "State")
		}
		spec := gen.ServiceSpec{Pkg: "sib" + strings.ReplaceAll(where[:4], " ", ""), Service: "Storage", Messages: msgs, Methods: bases}
		c := &genCase{spec: spec}
		if err := runPlugins(c, "protoc-gen-gorums", nil); err != nil {
			r.Error = err.Error()
			return
		}
		r.Execs++
		if c.res.Exit != 0 || c.res.Error != "" {
			diag, _ := c.res.Diagnostic()
			addViol(r, "C16/legal-rejected", "custom return type declared in the "+where, fmt.Sprintf("a service whose custom return type is declared in the %s is rejected: %s", where, firstLine(diag)), nil)
			continue
		}
		var src string
		for _, content := range c.res.Files {
			src += content
		}
		for _, m := range bases {
			// the quorum function of the method returns the declared custom type
			re := regexp.MustCompile(`(?m)^\s*` + m.Name + `QF\(.*\) \(\*(\w+),`)
			got := re.FindStringSubmatch(src)
			switch {
			case got == nil:
				addViol(r, "C17/custom-return-type", m.Name+" ("+where+")", fmt.Sprintf("no quorum function %sQF in the QuorumSpec generated for a method with custom_return_type (declared in the %s)", m.Name, where), nil)
			case got[1] != "State":
				addViol(r, "C17/custom-return-type", m.Name+" ("+where+")", fmt.Sprintf("method %s declares custom_return_type = \"State\" (declared in the %s), but its quorum function returns *%s", m.Name, where, got[1]), nil)
			}
		}
		r.Outcomes["custom type in the "+where]++
	}
	r.States, r.Steps = r.Execs, r.Execs
	r.Sample = map[string]any{"service": "Storage with 5 methods whose custom_return_type State lives in another file of the same Go package", "checked": "<M>QF returns *State"}
}

// c17ExplicitFalse: a boolean method option that is present with the value false declares nothing. The output
// for a method must not change when such options are added to it.
func c17ExplicitFalse(r *vp.InstResult) {
	opts := []struct {
		name string
		num  protowire.Number
	}{{"quorumcall", gen.ExtQuorumcall}, {"async", gen.ExtAsync}, {"correctable", gen.ExtCorrectable}, {"multicast", gen.ExtMulticast}, {"unicast", gen.ExtUnicast}, {"per_node_arg", gen.ExtPerNodeArg}}
	bases := []gen.MethodSpec{
		{Name: "M", In: "Req", Out: "Resp"},
		{Name: "M", In: "Req", Out: "Resp", Quorumcall: true},
		{Name: "M", In: "Req", Out: "Resp", Correctable: true},
		{Name: "M", In: "Req", Out: "Resp", Multicast: true},
	}
	generate := func(m gen.MethodSpec) (map[string]string, string, error) {
		c := &genCase{spec: gen.ServiceSpec{Pkg: "xf", Service: "Svc", Messages: []string{"Req", "Resp"}, Methods: []gen.MethodSpec{m}}}
		if err := runPlugins(c, "protoc-gen-gorums", nil); err != nil {
			return nil, "", err
		}
		r.Execs++
		if c.res.Exit != 0 || c.res.Error != "" {
			diag, _ := c.res.Diagnostic()
			return nil, firstLine(diag), nil
		}
		return c.res.Files, "", nil
	}
	for _, base := range bases {
		want, wdiag, err := generate(base)
		if err != nil {
			r.Error = err.Error()
			return
		}
		for _, o := range opts {
			set := map[protowire.Number]bool{gen.ExtQuorumcall: base.Quorumcall, gen.ExtCorrectable: base.Correctable, gen.ExtMulticast: base.Multicast}
			if set[o.num] {
				continue // the option is true in the base method
			}
			m := base
			m.ExplicitFalse = []protowire.Number{o.num}
			got, gdiag, err := generate(m)
			if err != nil {
				r.Error = err.Error()
				return
			}
			label := fmt.Sprintf("%s + %s = false", base.Label(), o.name)
			if base.Label() == "" {
				label = fmt.Sprintf("plain rpc + %s = false", o.name)
			}
			if d, ok := sameFiles(want, got); !ok || wdiag != gdiag {
				addViol(r, "C17/option-explicitly-false-treated-as-set", label, fmt.Sprintf("%s: the output differs from the output for the same method without the option (an option that is false declares nothing): %s %s", label, d, gdiag), nil)
			}
			r.Outcomes[label]++
		}
	}
	// custom_return_type is documented as not applicable to plain rpc, unicast and multicast: there is no quorum
	// function that could produce the custom type. Such a declaration must be rejected with a diagnostic or
	// change nothing - a stub that converts the reply to the custom type cannot work.
	for _, base := range []gen.MethodSpec{{Name: "M", In: "Req", Out: "Resp"}, {Name: "M", In: "Req", Out: "Resp", Unicast: true}, {Name: "M", In: "Req", Out: "Resp", Multicast: true}} {
		gen3 := func(m gen.MethodSpec) (map[string]string, string, error) {
			c := &genCase{spec: gen.ServiceSpec{Pkg: "xf", Service: "Svc", Messages: []string{"Req", "Resp", "Custom"}, Methods: []gen.MethodSpec{m}}}
			if err := runPlugins(c, "protoc-gen-gorums", nil); err != nil {
				return nil, "", err
			}
			r.Execs++
			if c.res.Exit != 0 || c.res.Error != "" {
				diag, _ := c.res.Diagnostic()
				return nil, firstLine(diag), nil
			}
			return c.res.Files, "", nil
		}
		want, _, err := gen3(base)
		if err != nil {
			r.Error = err.Error()
			return
		}
		m := base
		m.CustomRet = "Custom"
		got, gdiag, err := gen3(m)
		if err != nil {
			r.Error = err.Error()
			return
		}
		label := base.Label()
		if label == "" {
			label = "plain rpc"
		}
		label += " + custom_return_type"
		if gdiag == "" {
			if d, ok := sameFiles(want, got); !ok {
				addViol(r, "C17/custom-return-type", label, fmt.Sprintf("%s (documented as not applicable) is accepted without a diagnostic and changes the generated stub: %s", label, d), nil)
			}
		}
		r.Outcomes[label]++
	}
	r.States, r.Steps = r.Execs, r.Execs
	r.Sample = map[string]any{"method": "rpc M(Req) returns (Resp) { option (gorums.quorumcall) = false; }", "expected": "the same output as for the method without options"}
}

func c17Binding(d genDir, regenerated bool) func(r *vp.InstResult) {
	return func(r *vp.InstResult) {
		fd, err := gen.RawDescFromGoFile(filepath.Join(repoDir, d.dir, d.pbgo))
		if err != nil {
			r.Error = err.Error()
			return
		}
		sources := map[string]string{}
		where := d.dir + " (committed)"
		if regenerated {
			where = d.dir + " (regenerated)"
			res, _, err := regenerate(d, "protoc-gen-gorums", nil)
			if err != nil {
				r.Error = err.Error()
				return
			}
			if res.Exit != 0 || res.Error != "" {
				return // reported by the currency instance
			}
			for n, c := range res.Files {
				sources[filepath.Base(n)] = c
			}
		} else {
			for _, f := range d.files {
				b, _ := os.ReadFile(filepath.Join(repoDir, d.dir, f))
				sources[f] = string(b)
			}
		}
		checkBinding(r, where, fd, sources)
		r.States, r.Steps = r.Execs, r.Execs
		r.Sample = map[string]any{"package": d.dir, "method": "QuorumCallPerNodeArg", "checked": "Method literal, RegisterHandler literal and impl call, runtime entry point, receiver, per-node function, ServerStream flag"}
	}
}

func firstLine(s string) string {
	s = strings.TrimSpace(s)
	if i := strings.IndexByte(s, '\n'); i >= 0 {
		return s[:i]
	}
	return s
}

func init() {
	checks["C17"] = &check{
		rule:        "for every directory with committed *_gorums.pb.go files (dev in dev mode, benchmark, tests/*, examples): the package's proto descriptor is recovered from its .pb.go, the plugin built from the working tree regenerates the files and each is compared with the committed one as comment-free ASTs; template_static.go is compared with a fresh bundle of the static sources; for every method of every such service, in the committed and in the regenerated code, the client stub's method literal, the RegisterHandler literal and impl call, the runtime entry point, the receiver type, the per-node function and the ServerStream flag are compared with the descriptor and its options; the same binding analysis runs on freshly generated stubs of synthesised services (3 service spellings x 8 method spellings x 9 call variants) whose identifiers are not Go CamelCase, on services whose future / correctable result types have the same name in two packages (the typed Get of the type a stub returns must yield the method's own result type, unless the file is rejected), and on 44 pairs of files with the same service and method names but different options generated in one plugin run; states = files / methods compared",
		assumptions: []string{"the descriptor embedded in the committed .pb.go is the package's proto definition (protoc is not installed)", "dynamic binding (every generated zorums call variant executed against puppet servers) is the harness half of this check"},
		gen: func(tier string) []instance {
			dirs, err := findGenDirs()
			if err != nil {
				return []instance{{"error", func(r *vp.InstResult) { r.Error = err.Error() }}}
			}
			out := []instance{{"current/static-bundle", c17Bundle}, {"binding-synthesised/identifier-spellings", c17Synth}, {"binding-synthesised/custom-return-type-in-sibling-file", c17Sibling}, {"binding-synthesised/options-explicitly-false", c17ExplicitFalse}, {"binding-synthesised/two-files-in-one-run", c17MultiFile}}
			for _, d := range dirs {
				out = append(out, instance{"current/" + d.dir, c17Current(d)})
				out = append(out, instance{"binding-committed/" + d.dir, c17Binding(d, false)})
				out = append(out, instance{"binding-regenerated/" + d.dir, c17Binding(d, true)})
			}
			return out
		},
	}
}
