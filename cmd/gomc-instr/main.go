// gomc-instr rewrites the concurrency constructs of the given packages so that
// they run under the gomc scheduler, and writes a go build overlay.
package main

import (
	"bytes"
	"encoding/json"
	"flag"
	"fmt"
	"go/ast"
	"go/printer"
	"go/token"
	"go/types"
	"os"
	"path/filepath"
	"sort"
	"strconv"
	"strings"

	"golang.org/x/tools/go/ast/astutil"
	"golang.org/x/tools/go/packages"
)

// (import path, name) -> shim package. "*" means every name of that package.
type rewriteKey struct{ path, name string }

var shimPkgs = map[string]string{
	"mc":       "verif/mc",
	"mcsync":   "verif/mc/mcsync",
	"mcatomic": "verif/mc/mcatomic",
	"mcctx":    "verif/mc/mcctx",
	"mctime":   "verif/mc/mctime",
	"fakegrpc": "verif/mc/fakegrpc",
}

var selRewrites = map[rewriteKey]string{
	{"sync", "*"}:        "mcsync",
	{"sync/atomic", "*"}: "mcatomic",

	{"context", "WithCancel"}:   "mcctx",
	{"context", "WithTimeout"}:  "mcctx",
	{"context", "WithDeadline"}: "mcctx",
	{"context", "Background"}:   "mcctx",
	{"context", "TODO"}:         "mcctx",

	{"context", "WithCancelCause"}:   "mcctx",
	{"context", "WithTimeoutCause"}:  "mcctx",
	{"context", "WithDeadlineCause"}: "mcctx",
	{"context", "WithoutCancel"}:     "mcctx",
	{"context", "AfterFunc"}:         "mcctx",
	{"context", "Cause"}:             "mcctx",

	{"time", "NewTimer"}:  "mctime",
	{"time", "AfterFunc"}: "mctime",
	{"time", "NewTicker"}: "mctime",
	{"time", "Tick"}:      "mctime",
	{"time", "Timer"}:     "mctime",
	{"time", "Ticker"}:    "mctime",

	{"time", "After"}: "mctime",
	{"time", "Sleep"}: "mctime",

	{"google.golang.org/grpc", "ClientConn"}:  "fakegrpc",
	{"google.golang.org/grpc", "DialContext"}: "fakegrpc",
	{"google.golang.org/grpc", "Dial"}:        "fakegrpc",
	{"google.golang.org/grpc", "NewClient"}:   "fakegrpc",
}

var unsupported = map[rewriteKey]bool{
	{"runtime", "Gosched"}: true, {"os/signal", "Notify"}: true,
}

type instr struct {
	pkg                    *packages.Package
	info                   *types.Info
	fset                   *token.FileSet
	need                   map[string]bool // shim aliases needed by current file
	skip                   map[ast.Node]bool
	recv2                  map[ast.Node]bool
	tmp                    int
	errs                   []string
	nGo, nSel, nChan, nMap int
}

func id(n string) *ast.Ident                           { return ast.NewIdent(n) }
func sel(pkg, name string) ast.Expr                    { return &ast.SelectorExpr{X: id(pkg), Sel: id(name)} }
func call(fn ast.Expr, args ...ast.Expr) *ast.CallExpr { return &ast.CallExpr{Fun: fn, Args: args} }

func (in *instr) mc(name string, args ...ast.Expr) *ast.CallExpr {
	in.need["mc"] = true
	return call(sel("mc", name), args...)
}

func (in *instr) isChan(e ast.Expr) bool {
	t := in.info.TypeOf(e)
	if t == nil {
		return false
	}
	_, ok := t.Underlying().(*types.Chan)
	return ok
}

func (in *instr) isMap(e ast.Expr) bool {
	t := in.info.TypeOf(e)
	if t == nil {
		return false
	}
	_, ok := t.Underlying().(*types.Map)
	return ok
}

// isOrderedKeyMap: a map whose key type can be sorted by mc.Keys (cmp.Ordered).
func (in *instr) isOrderedKeyMap(e ast.Expr) bool {
	t := in.info.TypeOf(e)
	if t == nil {
		return false
	}
	m, ok := t.Underlying().(*types.Map)
	if !ok {
		return false
	}
	b, ok := m.Key().Underlying().(*types.Basic)
	return ok && b.Info()&(types.IsOrdered) != 0
}

func (in *instr) fresh(p string) string {
	in.tmp++
	return fmt.Sprintf("_mc%s%d", p, in.tmp)
}

func (in *instr) errorf(n ast.Node, format string, a ...any) {
	in.errs = append(in.errs, fmt.Sprintf("%s: %s", in.fset.Position(n.Pos()), fmt.Sprintf(format, a...)))
}

// recvDirected converts ch to a receive-only view expression usable with RecvCase/Got (generic on <-chan T).
func (in *instr) file(f *ast.File) {
	in.need = map[string]bool{}
	in.skip = map[ast.Node]bool{}
	in.recv2 = map[ast.Node]bool{}

	pre := func(c *astutil.Cursor) bool {
		switch n := c.Node().(type) {
		case *ast.SelectStmt:
			for _, cl := range n.Body.List {
				cc := cl.(*ast.CommClause)
				switch s := cc.Comm.(type) {
				case *ast.ExprStmt:
					in.skip[ast.Unparen(s.X)] = true
				case *ast.AssignStmt:
					in.skip[ast.Unparen(s.Rhs[0])] = true
				case *ast.SendStmt:
					in.skip[s] = true
				}
			}
		case *ast.AssignStmt:
			if len(n.Lhs) == 2 && len(n.Rhs) == 1 {
				if u, ok := ast.Unparen(n.Rhs[0]).(*ast.UnaryExpr); ok && u.Op == token.ARROW {
					in.recv2[u] = true
				}
			}
		case *ast.ValueSpec:
			if len(n.Names) == 2 && len(n.Values) == 1 {
				if u, ok := ast.Unparen(n.Values[0]).(*ast.UnaryExpr); ok && u.Op == token.ARROW {
					in.recv2[u] = true
				}
			}
		}
		return true
	}
	post := func(c *astutil.Cursor) bool {
		switch n := c.Node().(type) {
		case *ast.SelectorExpr:
			x, ok := n.X.(*ast.Ident)
			if !ok {
				break
			}
			pn, ok := in.info.Uses[x].(*types.PkgName)
			if !ok {
				break
			}
			path := pn.Imported().Path()
			if unsupported[rewriteKey{path, n.Sel.Name}] {
				in.errorf(n, "unsupported: %s.%s", path, n.Sel.Name)
			}
			alias, ok := selRewrites[rewriteKey{path, n.Sel.Name}]
			if !ok {
				alias, ok = selRewrites[rewriteKey{path, "*"}]
			}
			if ok {
				in.need[alias] = true
				c.Replace(&ast.SelectorExpr{X: id(alias), Sel: n.Sel})
			}
		case *ast.SendStmt:
			if in.skip[n] {
				break
			}
			in.nChan++
			c.Replace(&ast.ExprStmt{X: in.mc("Send", n.Chan, n.Value)})
		case *ast.UnaryExpr:
			if n.Op != token.ARROW || in.skip[n] {
				break
			}
			in.nChan++
			if in.recv2[n] {
				c.Replace(in.mc("Recv2", n.X))
			} else {
				c.Replace(in.mc("Recv", n.X))
			}
		case *ast.CallExpr:
			fn, ok := n.Fun.(*ast.Ident)
			if !ok || len(n.Args) != 1 {
				break
			}
			if _, isBuiltin := in.info.Uses[fn].(*types.Builtin); !isBuiltin {
				break
			}
			if !in.isChan(n.Args[0]) {
				break
			}
			switch fn.Name {
			case "close":
				in.nChan++
				c.Replace(in.mc("Close", n.Args[0]))
			case "len":
				c.Replace(in.mc("Len", n.Args[0]))
			case "cap":
				// capacity is static; leave
			}
		case *ast.GoStmt:
			in.nGo++
			c.Replace(in.goStmt(n))
		case *ast.SelectStmt:
			in.nSel++
			if _, labeled := c.Parent().(*ast.LabeledStmt); labeled {
				in.errorf(n, "labeled select not supported yet")
			}
			c.Replace(in.selectStmt(n))
		case *ast.RangeStmt:
			if in.isChan(n.X) {
				in.nChan++
				c.Replace(in.rangeChan(n))
			} else if in.isOrderedKeyMap(n.X) {
				in.nMap++
				c.Replace(in.rangeMap(n))
			}
		}
		return true
	}
	astutil.Apply(f, pre, post)
	in.fixImports(f)
}

func (in *instr) goStmt(g *ast.GoStmt) ast.Stmt {
	callx := g.Call
	// go func(){...}() with no args: run the literal directly
	if fl, ok := callx.Fun.(*ast.FuncLit); ok && len(callx.Args) == 0 {
		return &ast.ExprStmt{X: in.mc("Go", fl)}
	}
	var lhs, rhs []ast.Expr
	fname := in.fresh("f")
	lhs = append(lhs, id(fname))
	rhs = append(rhs, callx.Fun)
	var args []ast.Expr
	for _, a := range callx.Args {
		if tv, ok := in.info.Types[a]; ok && tv.Value != nil {
			args = append(args, a) // constant: keep in place (untyped constants would lose their type)
			continue
		}
		n := in.fresh("a")
		lhs = append(lhs, id(n))
		rhs = append(rhs, a)
		args = append(args, id(n))
	}
	inner := &ast.CallExpr{Fun: id(fname), Args: args, Ellipsis: callx.Ellipsis}
	lit := &ast.FuncLit{Type: &ast.FuncType{Params: &ast.FieldList{}}, Body: &ast.BlockStmt{List: []ast.Stmt{&ast.ExprStmt{X: inner}}}}
	return &ast.BlockStmt{List: []ast.Stmt{
		&ast.AssignStmt{Lhs: lhs, Tok: token.DEFINE, Rhs: rhs},
		&ast.ExprStmt{X: in.mc("Go", lit)},
	}}
}

func (in *instr) selectStmt(s *ast.SelectStmt) ast.Stmt {
	var pre []ast.Stmt
	var cases []ast.Expr
	var clauses []ast.Stmt
	hasDefault := false
	idx := 0
	for _, cl := range s.Body.List {
		cc := cl.(*ast.CommClause)
		if cc.Comm == nil {
			hasDefault = true
			clauses = append(clauses, &ast.CaseClause{List: nil, Body: cc.Body})
			continue
		}
		chName := in.fresh("c")
		var chExpr ast.Expr
		var body []ast.Stmt
		switch c := cc.Comm.(type) {
		case *ast.SendStmt:
			chExpr = c.Chan
			vName := in.fresh("v")
			pre = append(pre, &ast.AssignStmt{Lhs: []ast.Expr{id(chName)}, Tok: token.DEFINE, Rhs: []ast.Expr{chExpr}})
			// the value must have the channel's element type: declare it with the right type via a typed helper
			pre = append(pre, &ast.AssignStmt{Lhs: []ast.Expr{id(vName)}, Tok: token.DEFINE, Rhs: []ast.Expr{in.mc("Elem", id(chName), c.Value)}})
			cases = append(cases, in.mc("SendCase", id(chName), id(vName)))
		case *ast.ExprStmt:
			u := ast.Unparen(c.X).(*ast.UnaryExpr)
			chExpr = u.X
			pre = append(pre, &ast.AssignStmt{Lhs: []ast.Expr{id(chName)}, Tok: token.DEFINE, Rhs: []ast.Expr{in.mc("RO", chExpr)}})
			cases = append(cases, in.mc("RecvCase", id(chName)))
		case *ast.AssignStmt:
			u := ast.Unparen(c.Rhs[0]).(*ast.UnaryExpr)
			chExpr = u.X
			pre = append(pre, &ast.AssignStmt{Lhs: []ast.Expr{id(chName)}, Tok: token.DEFINE, Rhs: []ast.Expr{in.mc("RO", chExpr)}})
			cases = append(cases, in.mc("RecvCase", id(chName)))
			got := "Got"
			if len(c.Lhs) == 2 {
				got = "Got2"
			}
			body = append(body, &ast.AssignStmt{Lhs: c.Lhs, Tok: c.Tok, Rhs: []ast.Expr{in.mc(got, id(chName))}})
			if c.Tok == token.DEFINE {
				// avoid "declared and not used" for variables the original body ignores
				for _, l := range c.Lhs {
					if li, ok := l.(*ast.Ident); ok && li.Name != "_" {
						body = append(body, &ast.AssignStmt{Lhs: []ast.Expr{id("_")}, Tok: token.ASSIGN, Rhs: []ast.Expr{id(li.Name)}})
					}
				}
			}
		}
		body = append(body, cc.Body...)
		clauses = append(clauses, &ast.CaseClause{List: []ast.Expr{&ast.BasicLit{Kind: token.INT, Value: strconv.Itoa(idx)}}, Body: body})
		idx++
	}
	def := "false"
	if hasDefault {
		def = "true"
	}
	args := append([]ast.Expr{id(def)}, cases...)
	if !hasDefault {
		// keeps the statement terminating when every case terminates (as the select was)
		clauses = append(clauses, &ast.CaseClause{List: nil, Body: []ast.Stmt{&ast.ExprStmt{X: call(id("panic"), in.mc("Unreachable"))}}})
	}
	sw := &ast.SwitchStmt{Tag: in.mc("Select", args...), Body: &ast.BlockStmt{List: clauses}}
	return &ast.BlockStmt{List: append(pre, sw)}
}

func (in *instr) rangeChan(r *ast.RangeStmt) ast.Stmt {
	// for k := range ch {body}  =>  for { k, ok := mc.Recv2(ch); if !ok {break}; body }
	okName := in.fresh("ok")
	var key ast.Expr = id("_")
	tok := token.DEFINE
	if r.Key != nil {
		key = r.Key
		tok = r.Tok
	}
	var recv ast.Stmt
	if tok == token.DEFINE {
		recv = &ast.AssignStmt{Lhs: []ast.Expr{key, id(okName)}, Tok: token.DEFINE, Rhs: []ast.Expr{in.mc("Recv2", r.X)}}
	} else {
		recv = &ast.BlockStmt{List: []ast.Stmt{
			&ast.DeclStmt{Decl: &ast.GenDecl{Tok: token.VAR, Specs: []ast.Spec{&ast.ValueSpec{Names: []*ast.Ident{id(okName)}, Type: id("bool")}}}},
			&ast.AssignStmt{Lhs: []ast.Expr{key, id(okName)}, Tok: token.ASSIGN, Rhs: []ast.Expr{in.mc("Recv2", r.X)}},
		}}
		in.errorf(r, "range over channel with '=' not supported yet")
	}
	body := append([]ast.Stmt{recv, &ast.IfStmt{Cond: &ast.UnaryExpr{Op: token.NOT, X: id(okName)}, Body: &ast.BlockStmt{List: []ast.Stmt{&ast.BranchStmt{Tok: token.BREAK}}}}}, r.Body.List...)
	return &ast.ForStmt{Body: &ast.BlockStmt{List: body}}
}

func (in *instr) rangeMap(r *ast.RangeStmt) ast.Stmt {
	// for k, v := range m {body} => { _m := m; for _, k := range mc.Keys(_m) { v, _ok := _m[k]; if !_ok {continue}; body } }
	mName, okName := in.fresh("m"), in.fresh("ok")
	kName := in.fresh("k")
	var pro []ast.Stmt
	var keyExpr ast.Expr = id(kName)
	if r.Key != nil {
		if ki, ok := r.Key.(*ast.Ident); !ok || ki.Name != "_" {
			pro = append(pro, &ast.AssignStmt{Lhs: []ast.Expr{r.Key}, Tok: r.Tok, Rhs: []ast.Expr{id(kName)}})
			if r.Tok == token.DEFINE {
				pro = append(pro, &ast.AssignStmt{Lhs: []ast.Expr{id("_")}, Tok: token.ASSIGN, Rhs: []ast.Expr{r.Key}})
			}
		}
	}
	var val ast.Expr = id("_")
	vtok := token.DEFINE
	if r.Value != nil {
		if vi, ok := r.Value.(*ast.Ident); !ok || vi.Name != "_" {
			val = r.Value
			if r.Tok == token.ASSIGN {
				vtok = token.ASSIGN
			}
		}
	}
	idxExpr := &ast.IndexExpr{X: id(mName), Index: keyExpr}
	if vtok == token.DEFINE {
		pro = append(pro, &ast.AssignStmt{Lhs: []ast.Expr{val, id(okName)}, Tok: token.DEFINE, Rhs: []ast.Expr{idxExpr}})
		if vi, ok := val.(*ast.Ident); ok && vi.Name != "_" {
			pro = append(pro, &ast.AssignStmt{Lhs: []ast.Expr{id("_")}, Tok: token.ASSIGN, Rhs: []ast.Expr{id(vi.Name)}})
		}
	} else {
		pro = append(pro, &ast.DeclStmt{Decl: &ast.GenDecl{Tok: token.VAR, Specs: []ast.Spec{&ast.ValueSpec{Names: []*ast.Ident{id(okName)}, Type: id("bool")}}}})
		pro = append(pro, &ast.AssignStmt{Lhs: []ast.Expr{val, id(okName)}, Tok: token.ASSIGN, Rhs: []ast.Expr{idxExpr}})
	}
	pro = append(pro, &ast.IfStmt{Cond: &ast.UnaryExpr{Op: token.NOT, X: id(okName)}, Body: &ast.BlockStmt{List: []ast.Stmt{&ast.BranchStmt{Tok: token.CONTINUE}}}})
	site := in.fset.Position(r.Pos())
	loop := &ast.RangeStmt{Key: id("_"), Value: id(kName), Tok: token.DEFINE,
		X:    in.mc("Keys", id(mName), &ast.BasicLit{Kind: token.STRING, Value: strconv.Quote(fmt.Sprintf("%s:%d", filepath.Base(site.Filename), site.Line))}),
		Body: &ast.BlockStmt{List: append(pro, r.Body.List...)}}
	return &ast.BlockStmt{List: []ast.Stmt{
		&ast.AssignStmt{Lhs: []ast.Expr{id(mName)}, Tok: token.DEFINE, Rhs: []ast.Expr{r.X}},
		loop,
	}}
}

func (in *instr) fixImports(f *ast.File) {
	// which package identifiers are still used?
	used := map[string]bool{}
	ast.Inspect(f, func(n ast.Node) bool {
		if s, ok := n.(*ast.SelectorExpr); ok {
			if x, ok := s.X.(*ast.Ident); ok {
				used[x.Name] = true
			}
		}
		return true
	})
	for _, imp := range append([]*ast.ImportSpec{}, f.Imports...) {
		path, _ := strconv.Unquote(imp.Path.Value)
		name := ""
		if imp.Name != nil {
			name = imp.Name.Name
		} else if pkg := in.pkg.Imports[path]; pkg != nil {
			name = pkg.Name
		} else {
			name = path[strings.LastIndex(path, "/")+1:]
		}
		if name == "_" || name == "." {
			continue
		}
		if !used[name] {
			astutil.DeleteNamedImport(in.fset, f, importName(imp), path)
		}
	}
	var aliases []string
	for a := range in.need {
		aliases = append(aliases, a)
	}
	sort.Strings(aliases)
	for _, a := range aliases {
		astutil.AddNamedImport(in.fset, f, a, shimPkgs[a])
	}
}

func importName(imp *ast.ImportSpec) string {
	if imp.Name != nil {
		return imp.Name.Name
	}
	return ""
}

func main() {
	repo := flag.String("repo", "/repo", "repository root")
	out := flag.String("out", "", "output directory for rewritten files and overlay.json")
	extra := flag.String("extra", "", "directory with extra files to add to the root package (accessors)")
	replaceDir := flag.String("replace-dir", "", "directory whose *.go files replace the files of the same name in -replace-target (regenerated stubs)")
	replaceTarget := flag.String("replace-target", "cmd/protoc-gen-gorums/dev", "package directory (relative to -repo) the replacement files belong to")
	flag.Parse()
	pats := flag.Args()
	if len(pats) == 0 {
		pats = []string{"."}
	}
	cfg := &packages.Config{Dir: *repo, Mode: packages.NeedName | packages.NeedFiles | packages.NeedCompiledGoFiles | packages.NeedSyntax | packages.NeedTypes | packages.NeedTypesInfo | packages.NeedImports | packages.NeedDeps}
	if *replaceDir != "" {
		cfg.Overlay = map[string][]byte{}
		ents, _ := os.ReadDir(*replaceDir)
		for _, e := range ents {
			if strings.HasSuffix(e.Name(), ".go") {
				b, err := os.ReadFile(filepath.Join(*replaceDir, e.Name()))
				if err == nil {
					cfg.Overlay[filepath.Join(*repo, *replaceTarget, e.Name())] = b
				}
			}
		}
	}
	pkgs, err := packages.Load(cfg, pats...)
	if err != nil {
		fmt.Fprintln(os.Stderr, err)
		os.Exit(3)
	}
	if packages.PrintErrors(pkgs) > 0 {
		os.Exit(3)
	}
	overlay := map[string]string{}
	os.MkdirAll(*out, 0o755)
	failed := false
	for _, pkg := range pkgs {
		in := &instr{pkg: pkg, info: pkg.TypesInfo, fset: pkg.Fset}
		for i, f := range pkg.Syntax {
			orig := pkg.CompiledGoFiles[i]
			in.file(f)
			f.Comments = nil
			var buf bytes.Buffer
			pc := printer.Config{Mode: printer.UseSpaces | printer.TabIndent, Tabwidth: 8}
			if err := pc.Fprint(&buf, pkg.Fset, f); err != nil {
				fmt.Fprintln(os.Stderr, "print:", err)
				os.Exit(3)
			}
			rel, _ := filepath.Rel(*repo, orig)
			dst := filepath.Join(*out, strings.ReplaceAll(rel, string(filepath.Separator), "__"))
			if err := os.WriteFile(dst, buf.Bytes(), 0o644); err != nil {
				fmt.Fprintln(os.Stderr, err)
				os.Exit(3)
			}
			overlay[orig] = dst
		}
		fmt.Printf("%s: go=%d select=%d chanops=%d maprange=%d\n", pkg.PkgPath, in.nGo, in.nSel, in.nChan, in.nMap)
		for _, e := range in.errs {
			fmt.Fprintln(os.Stderr, "gomc-instr:", e)
			failed = true
		}
	}
	if *extra != "" {
		ents, _ := os.ReadDir(*extra)
		for _, e := range ents {
			if strings.HasSuffix(e.Name(), ".go") {
				overlay[filepath.Join(*repo, e.Name())] = filepath.Join(*extra, e.Name())
			}
		}
	}
	b, _ := json.MarshalIndent(map[string]any{"Replace": overlay}, "", " ")
	os.WriteFile(filepath.Join(*out, "overlay.json"), b, 0o644)
	if failed {
		os.Exit(3)
	}
}
