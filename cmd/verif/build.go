package main

import (
	"crypto/sha256"
	"encoding/hex"
	"fmt"
	"io/fs"
	"os"
	"os/exec"
	"path/filepath"
	"sort"
	"strings"
	"syscall"
	"time"
)

type build struct {
	dir string
	key string
}

func hashTree(h interface{ Write([]byte) (int, error) }, root string, dirs []string, keep func(path string) bool) {
	var files []string
	for _, d := range dirs {
		filepath.WalkDir(filepath.Join(root, d), func(p string, e fs.DirEntry, err error) error {
			if err != nil {
				return nil
			}
			if e.IsDir() {
				n := e.Name()
				if n == ".git" || n == ".cache" || n == "bin" || n == "evidence" || n == "seeded" || n == "node_modules" {
					return filepath.SkipDir
				}
				return nil
			}
			if keep(p) {
				files = append(files, p)
			}
			return nil
		})
	}
	sort.Strings(files)
	for _, f := range files {
		b, err := os.ReadFile(f)
		if err != nil {
			continue
		}
		fmt.Fprintf(h.(interface {
			Write([]byte) (int, error)
		}), "%s %d\n", f, len(b))
		h.Write(b)
	}
}

func sourceKey() string {
	h := sha256.New()
	hashTree(h, repoDir, []string{"."}, func(p string) bool {
		if strings.HasSuffix(p, "_test.go") {
			return false
		}
		return strings.HasSuffix(p, ".go") || strings.HasSuffix(p, "go.mod") || strings.HasSuffix(p, "go.sum") || strings.HasSuffix(p, ".proto")
	})
	hashTree(h, verifDir, []string{"mc", "world", "checks", "cmd", "extra", "vp", "gen", "conformance"}, func(p string) bool {
		return strings.HasSuffix(p, ".go")
	})
	for _, f := range []string{"go.mod", "go.sum"} {
		b, _ := os.ReadFile(filepath.Join(verifDir, f))
		h.Write(b)
	}
	return hex.EncodeToString(h.Sum(nil))[:20]
}

func run(dir string, env []string, name string, args ...string) (string, error) {
	cmd := exec.Command(name, args...)
	cmd.Dir = dir
	cmd.Env = append(os.Environ(), env...)
	out, err := cmd.CombinedOutput()
	return string(out), err
}

// ensureBuild instruments /repo's working tree and builds the check providers,
// unless a build for exactly these sources exists already.
func ensureBuild(race bool) (*build, error) {
	key := sourceKey()
	base := filepath.Join(verifDir, ".cache", "build")
	os.MkdirAll(base, 0o755)
	dir := filepath.Join(base, key)
	b := &build{dir: dir, key: key}
	target := "harness"
	if race {
		target = "harness-race"
	}
	if _, err := os.Stat(filepath.Join(dir, target)); err == nil {
		os.Chtimes(dir, time.Now(), time.Now())
		return b, nil
	}
	// one builder at a time
	lf, err := os.OpenFile(filepath.Join(base, "lock"), os.O_CREATE|os.O_RDWR, 0o644)
	if err != nil {
		return nil, err
	}
	defer lf.Close()
	if err := syscall.Flock(int(lf.Fd()), syscall.LOCK_EX); err != nil {
		return nil, err
	}
	defer syscall.Flock(int(lf.Fd()), syscall.LOCK_UN)
	if _, err := os.Stat(filepath.Join(dir, target)); err == nil {
		return b, nil
	}
	os.MkdirAll(filepath.Join(dir, "ov"), 0o755)
	os.MkdirAll(filepath.Join(dir, "race"), 0o755)
	if _, err := os.Stat(filepath.Join(dir, "ov", "overlay.json")); err != nil {
		if out, err := run(verifDir, nil, "go", "build", "-o", filepath.Join(dir, "gomc-instr"), "./cmd/gomc-instr"); err != nil {
			return nil, fmt.Errorf("building gomc-instr: %v\n%s", err, out)
		}
		if err := buildGenerators(dir); err != nil {
			return nil, err
		}
		// the harness is compiled against the stubs the working tree's templates produce now
		iargs := []string{"-repo", repoDir, "-out", filepath.Join(dir, "ov"), "-extra", filepath.Join(verifDir, "extra")}
		regen := filepath.Join(dir, "regen")
		os.RemoveAll(regen)
		if out, err := run(verifDir, []string{"VERIF_BUILD_DIR=" + dir}, filepath.Join(dir, "gencheck"), "-regen-dev", regen); err != nil {
			fmt.Fprintf(os.Stderr, "verif: warning: dev stubs not regenerated from the working tree's templates (the committed stubs are used): %s\n", strings.TrimSpace(out))
		} else {
			iargs = append(iargs, "-replace-dir", regen)
		}
		iargs = append(iargs, ".", "./cmd/protoc-gen-gorums/dev")
		out, err := run(verifDir, instrEnv(), filepath.Join(dir, "gomc-instr"), iargs...)
		if err != nil && len(iargs) > 8 {
			// regenerated stubs that do not type-check: fall back to the committed ones (C16/C17 report the breakage)
			fmt.Fprintf(os.Stderr, "verif: warning: regenerated dev stubs do not compile (the committed stubs are used): %s\n", firstLines(out, 3))
			iargs = []string{"-repo", repoDir, "-out", filepath.Join(dir, "ov"), "-extra", filepath.Join(verifDir, "extra"), ".", "./cmd/protoc-gen-gorums/dev"}
			out, err = run(verifDir, instrEnv(), filepath.Join(dir, "gomc-instr"), iargs...)
		}
		if err != nil {
			os.Remove(filepath.Join(dir, "ov", "overlay.json"))
			return nil, fmt.Errorf("instrumenting %s: %v\n%s", repoDir, err, out)
		}
	}
	if err := buildGenerators(dir); err != nil {
		return nil, err
	}
	args := []string{"build", "-overlay", filepath.Join(dir, "ov", "overlay.json")}
	if race {
		args = append(args, "-race", "-gcflags=verif/...=-race=false -l")
	}
	args = append(args, "-o", filepath.Join(dir, target+".tmp"), "./cmd/harness")
	if out, err := run(verifDir, nil, "go", args...); err != nil {
		return nil, fmt.Errorf("go %s: %v\n%s", strings.Join(args, " "), err, out)
	}
	if err := os.Rename(filepath.Join(dir, target+".tmp"), filepath.Join(dir, target)); err != nil {
		return nil, err
	}
	pruneBuilds(base, key)
	return b, nil
}

func firstLines(s string, n int) string {
	ls := strings.Split(strings.TrimSpace(s), "\n")
	if len(ls) > n {
		ls = ls[:n]
	}
	return strings.Join(ls, " | ")
}

// buildGenerators builds the plugin binaries from the working tree, protoc-gen-go from the
// module cache, the map-order-controlled plugin and the gencheck provider.
func buildGenerators(dir string) error {
	if _, err := os.Stat(filepath.Join(dir, "gencheck")); err == nil {
		return nil
	}
	inRepo := []string{"GOFLAGS=-mod=mod"} // commands run inside the repository's own module never use the alternative modfile
	if out, err := run(repoDir, inRepo, "go", "build", "-o", filepath.Join(dir, "protoc-gen-gorums"), "./cmd/protoc-gen-gorums"); err != nil {
		return fmt.Errorf("building protoc-gen-gorums from the working tree: %v\n%s", err, out)
	}
	if out, err := run(repoDir, inRepo, "go", "build", "-o", filepath.Join(dir, "protoc-gen-go"), "google.golang.org/protobuf/cmd/protoc-gen-go"); err != nil {
		return fmt.Errorf("building protoc-gen-go: %v\n%s", err, out)
	}
	// plugin with its map ranges routed through mc.Keys (order chosen by GOMC_MAPORDER)
	os.MkdirAll(filepath.Join(dir, "ovgen"), 0o755)
	if out, err := run(verifDir, instrEnv(), filepath.Join(dir, "gomc-instr"), "-repo", repoDir, "-out", filepath.Join(dir, "ovgen"), "./cmd/protoc-gen-gorums/gengorums"); err != nil {
		return fmt.Errorf("instrumenting gengorums: %v\n%s", err, out)
	}
	if out, err := run(verifDir, nil, "go", "build", "-overlay", filepath.Join(dir, "ovgen", "overlay.json"), "-o", filepath.Join(dir, "protoc-gen-gorums-mc"), "github.com/relab/gorums/cmd/protoc-gen-gorums"); err != nil {
		return fmt.Errorf("building the map-order-controlled plugin: %v\n%s", err, out)
	}
	if out, err := run(verifDir, nil, "go", "build", "-o", filepath.Join(dir, "gencheck.tmp"), "./cmd/gencheck"); err != nil {
		return fmt.Errorf("building gencheck: %v\n%s", err, out)
	}
	return os.Rename(filepath.Join(dir, "gencheck.tmp"), filepath.Join(dir, "gencheck"))
}

func pruneBuilds(base, keep string) {
	ents, err := os.ReadDir(base)
	if err != nil {
		return
	}
	type d struct {
		name string
		t    time.Time
	}
	var ds []d
	for _, e := range ents {
		if !e.IsDir() || e.Name() == keep {
			continue
		}
		if fi, err := e.Info(); err == nil {
			ds = append(ds, d{e.Name(), fi.ModTime()})
		}
	}
	sort.Slice(ds, func(i, j int) bool { return ds[i].t.After(ds[j].t) })
	for i, x := range ds {
		// builds used within the last 45 minutes may belong to a check that is running at the same time
		if i >= 2 && time.Since(x.t) > 45*time.Minute {
			os.RemoveAll(filepath.Join(base, x.name))
		}
	}
}

// instrEnv: the instrumenter loads packages with the go command inside the repository module.
func instrEnv() []string { return []string{"GOFLAGS=-mod=mod"} }
