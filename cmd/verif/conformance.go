package main

import (
	"encoding/json"
	"fmt"
	"os"
	"os/exec"
	"path/filepath"
	"reflect"
	"sort"
)

// cmdConformance checks the environment models against what they stand for:
// the Go primitives' shims against the real runtime on the litmus programs
// (same source, built plainly and through the instrumenter).
func cmdConformance() int {
	b, err := ensureBuild(false)
	if err != nil {
		fmt.Fprintln(os.Stderr, "verif: build failed:", err)
		return 3
	}
	dir := filepath.Join(b.dir, "conf")
	os.MkdirAll(dir, 0o755)
	steps := [][]string{
		{"go", "build", "-o", filepath.Join(dir, "litmus-real"), "./conformance/cmd/litmus-real"},
		{filepath.Join(b.dir, "gomc-instr"), "-repo", verifDir, "-out", filepath.Join(dir, "ov"), "./conformance/litmus"}, // loads a verif package: uses the (alternative) modfile
		{"go", "build", "-tags", "gomc", "-overlay", filepath.Join(dir, "ov", "overlay.json"), "-o", filepath.Join(dir, "litmus-mc"), "./conformance/cmd/litmus-mc"},
	}
	for _, st := range steps {
		if out, err := run(verifDir, nil, st[0], st[1:]...); err != nil {
			fmt.Fprintf(os.Stderr, "verif: %v: %v\n%s\n", st, err, out)
			return 3
		}
	}
	type mcOut struct {
		Outcomes   map[string][]string `json:"outcomes"`
		Executions map[string]int      `json:"executions"`
		Expect     map[string][]string `json:"expect"`
	}
	load := func(bin string, args ...string) ([]byte, error) {
		return exec.Command(filepath.Join(dir, bin), args...).Output()
	}
	var pruned, full mcOut
	real := map[string][]string{}
	o1, err := load("litmus-mc")
	if err == nil {
		err = json.Unmarshal(o1, &pruned)
	}
	o2, err2 := load("litmus-mc", "-nocache")
	if err2 == nil {
		err2 = json.Unmarshal(o2, &full)
	}
	o3, err3 := load("litmus-real")
	if err3 == nil {
		err3 = json.Unmarshal(o3, &real)
	}
	if err != nil || err2 != nil || err3 != nil {
		fmt.Fprintln(os.Stderr, "verif: running the litmus binaries:", err, err2, err3)
		return 3
	}
	names := make([]string, 0, len(real))
	for n := range real {
		names = append(names, n)
	}
	sort.Strings(names)
	bad, execs := 0, 0
	subset := func(a, b []string) bool {
		m := map[string]bool{}
		for _, x := range b {
			m[x] = true
		}
		for _, x := range a {
			if !m[x] {
				return false
			}
		}
		return true
	}
	for _, n := range names {
		mcSet, fullSet, realSet, exp := pruned.Outcomes[n], full.Outcomes[n], real[n], pruned.Expect[n]
		execs += full.Executions[n]
		var problems []string
		if !subset(realSet, mcSet) {
			problems = append(problems, fmt.Sprintf("the real runtime produced %v, the shims only allow %v", realSet, mcSet))
		}
		if !reflect.DeepEqual(mcSet, fullSet) {
			problems = append(problems, fmt.Sprintf("fingerprint pruning changes the outcome set: %v vs %v without pruning", mcSet, fullSet))
		}
		if exp != nil {
			sort.Strings(exp)
			if !reflect.DeepEqual(mcSet, exp) {
				problems = append(problems, fmt.Sprintf("the shims allow %v, Go's semantics allow %v", mcSet, exp))
			}
			if !subset(realSet, exp) {
				problems = append(problems, fmt.Sprintf("the real runtime produced %v outside the expected set %v", realSet, exp))
			}
		}
		for _, p := range problems {
			bad++
			fmt.Printf("CONFORMANCE litmus %s: %s\n", n, p)
		}
	}
	// transport: the same scripts against real grpc-go over loopback and against fakegrpc
	tsteps := [][]string{
		{"go", "build", "-o", filepath.Join(dir, "transport-real"), "./conformance/cmd/transport-real"},
		{"go", "build", "-tags", "gomc", "-o", filepath.Join(dir, "transport-mc"), "./conformance/cmd/transport-mc"},
	}
	for _, st := range tsteps {
		if out, err := run(verifDir, nil, st[0], st[1:]...); err != nil {
			fmt.Fprintf(os.Stderr, "verif: %v: %v\n%s\n", st, err, out)
			return 3
		}
	}
	treal, tfake := map[string][]string{}, map[string][]string{}
	ot, errT := load("transport-real")
	if errT == nil {
		errT = json.Unmarshal(ot, &treal)
	}
	of, errF := load("transport-mc")
	if errF == nil {
		errF = json.Unmarshal(of, &tfake)
	}
	if errT != nil || errF != nil {
		fmt.Fprintln(os.Stderr, "verif: running the transport scripts:", errT, errF)
		return 3
	}
	// Steps whose result class depends on timing in grpc-go itself: a RecvMsg pending when the connection is
	// closed returns Canceled ("the client connection is closing") or Unavailable ("transport is closing"),
	// whichever goroutine notices first. The model always answers Unavailable; gorums treats every RecvMsg
	// error alike.
	eitherClass := map[string]map[string]bool{"close-conn": {"recv=Canceled": true, "recv=Unavailable": true}}
	norm := func(script string, steps []string) []string {
		out := append([]string{}, steps...)
		for i, st := range out {
			if eitherClass[script][st] {
				out[i] = "recv=Canceled|Unavailable"
			}
		}
		return out
	}
	steps2 := 0
	for n, rt := range treal {
		steps2 += len(rt)
		if !reflect.DeepEqual(norm(n, rt), norm(n, tfake[n])) {
			bad++
			fmt.Printf("CONFORMANCE transport %s: real grpc-go %v, fakegrpc %v\n", n, rt, tfake[n])
		}
	}
	fmt.Printf("conformance: %d transport scripts (%d steps) on real grpc-go over loopback and on fakegrpc\n", len(treal), steps2)
	fmt.Printf("conformance: %d litmus programs, %d exhaustive shim executions (with and without pruning), 300 real runs each: %d disagreements\n", len(names), execs, bad)
	if bad > 0 {
		return 1
	}
	return 0
}
