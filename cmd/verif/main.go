// verif is the driver of the gorums model-checking framework: it instruments
// and builds the harness from /repo's current working tree, shards the scenario
// instances of a check over worker processes, classifies violations against
// known_findings.json, writes the evidence file and replay files.
//
//	verif build
//	verif check C01 [--tier quick|thorough] [--budget seconds] [--workers n]
//	verif replay evidence/replays/C01-1.json
package main

import (
	"bufio"
	"crypto/sha256"
	"encoding/hex"
	"encoding/json"
	"fmt"
	"os"
	"os/exec"
	"path/filepath"
	"runtime"
	"sort"
	"strconv"
	"strings"
	"sync"
	"time"

	"verif/vp"
)

var (
	verifDir = "/verif"
	repoDir  = "/repo"
)

func main() {
	if d := os.Getenv("VERIF_DIR"); d != "" {
		verifDir = d
	}
	if len(os.Args) < 2 {
		usage()
	}
	setEnv()
	if r := os.Getenv("VERIF_REPO"); r != "" && r != repoDir {
		// check another copy of the repository (scratch worktree with a seeded change, snapshot of a
		// background run): same module graph, the replace directive pointed at that copy
		repoDir = r
		if err := useAltModfile(); err != nil {
			fmt.Fprintln(os.Stderr, "verif:", err)
			os.Exit(3)
		}
	}
	switch os.Args[1] {
	case "build":
		b, err := ensureBuild(false)
		if err != nil {
			fmt.Fprintln(os.Stderr, "verif: build failed:", err)
			os.Exit(3)
		}
		if len(os.Args) > 2 && os.Args[2] == "--race" {
			if _, err := ensureBuild(true); err != nil {
				fmt.Fprintln(os.Stderr, "verif: race build failed:", err)
				os.Exit(3)
			}
		}
		fmt.Println("build ok:", b.dir)
	case "check":
		os.Exit(cmdCheck(os.Args[2:]))
	case "conformance":
		os.Exit(cmdConformance())
	case "replay":
		if len(os.Args) < 3 {
			usage()
		}
		os.Exit(cmdReplay(os.Args[2]))
	default:
		usage()
	}
}

func usage() {
	fmt.Fprintln(os.Stderr, "usage: verif build | check <Cnn> [--tier quick|thorough] [--budget s] [--workers n] | replay <file>")
	os.Exit(3)
}

func setEnv() {
	os.Setenv("GOFLAGS", "-mod=mod")
	os.Setenv("GOPROXY", "off")
	os.Setenv("GOSUMDB", "off")
	os.Setenv("GOTOOLCHAIN", "local")
}

// ---------------------------------------------------------------------------
// check

type listing struct {
	N           int      `json:"n"`
	Names       []string `json:"names"`
	Rule        string   `json:"rule"`
	Assumptions []string `json:"assumptions"`
}

type finding struct {
	Property    string `json:"property"`
	Status      string `json:"status"` // known | fixed
	Rule        string `json:"rule"`
	Key         string `json:"key"`
	Instance    string `json:"instance,omitempty"` // optional glob on the scenario instance name
	Commit      string `json:"commit,omitempty"`
	Description string `json:"description"`
}

func loadFindings() []finding {
	b, err := os.ReadFile(filepath.Join(verifDir, "known_findings.json"))
	if err != nil {
		return nil
	}
	var f struct {
		Findings []finding `json:"findings"`
	}
	if err := json.Unmarshal(b, &f); err != nil {
		fmt.Fprintln(os.Stderr, "verif: known_findings.json:", err)
		os.Exit(3)
	}
	return f.Findings
}

func globMatch(pat, s string) bool {
	if !strings.Contains(pat, "*") {
		return pat == s
	}
	parts := strings.Split(pat, "*")
	if !strings.HasPrefix(s, parts[0]) {
		return false
	}
	s = s[len(parts[0]):]
	for i := 1; i < len(parts); i++ {
		p := parts[i]
		if i == len(parts)-1 {
			return strings.HasSuffix(s, p)
		}
		j := strings.Index(s, p)
		if j < 0 {
			return false
		}
		s = s[j+len(p):]
	}
	return true
}

func cmdCheck(args []string) int {
	if len(args) < 1 {
		usage()
	}
	id := args[0]
	tier := os.Getenv("VERIF_TIER")
	budget := 0
	only := ""
	workers := runtime.NumCPU()
	if workers > 16 {
		workers = 16
	}
	for i := 1; i < len(args); i++ {
		switch args[i] {
		case "--tier":
			i++
			tier = args[i]
		case "--budget":
			i++
			budget, _ = strconv.Atoi(args[i])
		case "--workers":
			i++
			workers, _ = strconv.Atoi(args[i])
		case "--only":
			i++
			only = args[i]
		}
	}
	if tier == "" {
		tier = "quick"
	}
	if budget == 0 {
		budget = 240
		if tier == "thorough" {
			budget = 1500
		}
	}
	seed, _ := strconv.Atoi(os.Getenv("VERIF_SEED"))
	t0 := time.Now()
	provs := providersOf(id)
	prov := provs[0]
	b, err := ensureBuild(prov.race)
	if err != nil {
		fmt.Fprintln(os.Stderr, "verif: build failed:", err)
		return 3
	}
	os.Setenv("VERIF_BUILD_DIR", b.dir)
	os.Setenv("VERIF_DIR", verifDir)
	buildS := time.Since(t0).Seconds()
	// the instances of all providers form one index space
	var ls listing
	var binOf []string // per instance
	var localIdx []int
	for _, pv := range provs {
		bin := filepath.Join(b.dir, pv.bin)
		out, err := exec.Command(bin, "-check", id, "-tier", tier, "-list").Output()
		if err != nil {
			fmt.Fprintf(os.Stderr, "verif: %s -list: %v\n", bin, err)
			return 3
		}
		var l listing
		if err := json.Unmarshal(out, &l); err != nil {
			fmt.Fprintln(os.Stderr, "verif: bad listing:", err)
			return 3
		}
		for i, n := range l.Names {
			ls.Names = append(ls.Names, n)
			binOf = append(binOf, bin)
			localIdx = append(localIdx, i)
		}
		ls.N += l.N
		if ls.Rule != "" {
			ls.Rule += " || "
		}
		ls.Rule += l.Rule
		ls.Assumptions = append(ls.Assumptions, l.Assumptions...)
	}
	deadline := time.Now().Add(time.Duration(budget) * time.Second)

	// instance order: rotated by the seed (coverage does not depend on it)
	order := make([]int, 0, ls.N)
	for i := 0; i < ls.N; i++ {
		j := (i + seed) % max(ls.N, 1)
		if only == "" || strings.Contains(ls.Names[j], only) {
			order = append(order, j)
		}
	}
	if only != "" {
		fmt.Printf("debug run: %d of %d instances match %q (evidence of such a run is partial)\n", len(order), ls.N, only)
	}
	if workers > ls.N {
		workers = max(ls.N, 1)
	}
	var mu sync.Mutex
	next := 0
	results := make([]*vp.InstResult, ls.N)
	var infra []string
	var wg sync.WaitGroup
	for _, pv := range provs {
		bin := filepath.Join(b.dir, pv.bin)
		// the jobs of this provider
		var jobs []int
		for _, j := range order {
			if binOf[j] == bin {
				jobs = append(jobs, j)
			}
		}
		next = 0
		for wk := 0; wk < workers; wk++ {
			wg.Add(1)
			go func(wk int) {
				defer wg.Done()
				for {
					// (re)start a worker process
					cmd := exec.Command(bin, "-check", id, "-tier", tier, "-worker", "-deadline", strconv.FormatInt(deadline.Unix(), 10))
					cmd.Env = append(os.Environ(), "GOMAXPROCS=1", "GORACE=halt_on_error=0 log_path="+filepath.Join(b.dir, "race", fmt.Sprintf("%s-w%d", id, wk)))
					cmd.Stderr = &prefixWriter{prefix: fmt.Sprintf("[w%d] ", wk)}
					stdin, _ := cmd.StdinPipe()
					stdout, _ := cmd.StdoutPipe()
					if err := cmd.Start(); err != nil {
						mu.Lock()
						infra = append(infra, "start worker: "+err.Error())
						mu.Unlock()
						return
					}
					rd := bufio.NewReaderSize(stdout, 1<<20)
					died := false
					for {
						mu.Lock()
						if next >= len(jobs) {
							mu.Unlock()
							break
						}
						idx := jobs[next]
						next++
						mu.Unlock()
						fmt.Fprintf(stdin, "%d\n", localIdx[idx])
						line, err := rd.ReadBytes('\n')
						if err != nil {
							mu.Lock()
							infra = append(infra, fmt.Sprintf("worker %d died on instance %d (%s)", wk, idx, ls.Names[idx]))
							mu.Unlock()
							died = true
							break
						}
						var r vp.InstResult
						if err := json.Unmarshal(line, &r); err != nil {
							mu.Lock()
							infra = append(infra, fmt.Sprintf("worker %d: bad result for instance %d: %v", wk, idx, err))
							mu.Unlock()
							continue
						}
						r.Index = idx
						mu.Lock()
						results[idx] = &r
						mu.Unlock()
					}
					stdin.Close()
					cmd.Wait()
					if !died {
						return
					}
					mu.Lock()
					tooMany := len(infra) > 3
					mu.Unlock()
					if tooMany {
						return
					}
				}
			}(wk)
		}
		wg.Wait()
	}

	// aggregate
	type agg struct {
		execs, steps, states, points, caps, pruned, skipped, incomplete, violExecs int
		maxAlts, maxThreads                                                        int
		minBound, maxBound                                                         int
		instances                                                                  int
		deeper, deeperDone                                                         int
		histories                                                                  int
	}
	a := agg{minBound: 99}
	distinct := map[string]bool{}
	var samples []any
	type hit struct {
		inst *vp.InstResult
		v    vp.Viol
	}
	var hits []hit
	for _, r := range results {
		if r == nil {
			a.skipped++
			continue
		}
		a.instances++
		if r.Skipped {
			a.skipped++
			continue
		}
		a.execs += r.Execs
		a.steps += r.Steps
		a.states += r.States
		a.points += r.Points
		a.caps += r.CapHits
		a.pruned += r.Pruned
		a.histories += r.Histories
		a.violExecs += r.ViolExecs
		a.maxAlts = max(a.maxAlts, r.MaxAlts)
		a.maxThreads = max(a.maxThreads, r.MaxThreads)
		if !r.Complete && len(r.Violations) == 0 {
			a.incomplete++
		}
		deeper := strings.HasSuffix(r.Name, "/deeper")
		if deeper {
			a.deeper++
			if r.Complete {
				a.deeperDone++
			}
		}
		if r.BoundCompleted < a.minBound && !deeper {
			a.minBound = r.BoundCompleted
		}
		a.maxBound = max(a.maxBound, r.Bound)
		for o := range r.Outcomes {
			distinct[r.Name+"|"+o] = true
		}
		if r.Sample != nil && len(samples) < 5 && (len(samples) == 0 || r.Index%max(ls.N/5, 1) == 0) {
			samples = append(samples, r.Sample)
		}
		if r.Error != "" {
			infra = append(infra, r.Name+": "+r.Error)
		}
		for _, v := range r.Violations {
			hits = append(hits, hit{r, v})
		}
	}
	if a.minBound == 99 {
		a.minBound = -1
	}

	// classify violations
	findings := loadFindings()
	knownSeen := map[int]int{}
	exit := 0
	var lines []string
	type uk struct{ rule, key string }
	unknown := map[uk]hit{}
	unknownCount := map[uk]int{}
	for _, h := range hits {
		matched := false
		for i, f := range findings {
			if f.Status == "known" && f.Property == id && globMatch(f.Rule, h.v.Rule) && globMatch(f.Key, h.v.Key) && (f.Instance == "" || globMatch(f.Instance, h.inst.Name)) {
				knownSeen[i]++
				matched = true
				break
			}
		}
		if matched {
			continue
		}
		k := uk{h.v.Rule, h.v.Key}
		if old, ok := unknown[k]; !ok || h.v.Devs < old.v.Devs || (h.v.Devs == old.v.Devs && len(h.v.Choices) < len(old.v.Choices)) {
			unknown[k] = h
		}
		unknownCount[k]++
	}
	for i, f := range findings {
		if f.Status == "known" && f.Property == id {
			lines = append(lines, fmt.Sprintf("KNOWN-FINDING: property=%s rule=%s key=%q observed_in=%d_instances %s", id, f.Rule, f.Key, knownSeen[i], f.Description))
		}
	}
	var uks []uk
	for k := range unknown {
		uks = append(uks, k)
	}
	sort.Slice(uks, func(i, j int) bool {
		if uks[i].rule != uks[j].rule {
			return uks[i].rule < uks[j].rule
		}
		return uks[i].key < uks[j].key
	})
	os.MkdirAll(filepath.Join(evidenceRoot(), "replays"), 0o755)
	old, _ := filepath.Glob(filepath.Join(evidenceRoot(), "replays", id+"-*.json"))
	for _, f := range old {
		os.Remove(f)
	}
	for n, k := range uks {
		h := unknown[k]
		if n >= maxReported {
			fmt.Printf("violation (not replayed, %d more distinct): rule=%s key=%q instance=%s\n    %s\n", len(uks)-n, h.v.Rule, h.v.Key, h.inst.Name, firstLine(h.v.Msg))
			continue
		}
		rp := vp.Replay{Property: id, Check: id, Tier: tier, Instance: h.inst.Name, Index: h.inst.Index, Rule: h.v.Rule, Key: h.v.Key, Msg: h.v.Msg, Choices: h.v.Choices, Input: h.v.Input, Blocked: h.v.Blocked}
		path := filepath.Join(evidenceRoot(), "replays", fmt.Sprintf("%s-%d.json", id, n+1))
		// confirm by replaying the recorded schedule (twice, identical logs) before reporting
		bs, _ := json.MarshalIndent(rp, "", " ")
		os.WriteFile(path, bs, 0o644)
		rc, rout := runReplay(binOf[h.inst.Index], path)
		status := "confirmed by replay"
		if rc == 3 {
			infra = append(infra, fmt.Sprintf("replay of %s did not run deterministically: %s", path, lastLines(rout, 3)))
			continue
		}
		if rc == 0 {
			infra = append(infra, fmt.Sprintf("violation %s [%s] in %s was not reproduced by its replay file %s", h.v.Rule, h.v.Key, h.inst.Name, path))
			continue
		}
		fmt.Printf("violation: rule=%s key=%q instance=%s deviations=%d occurrences=%d (%s)\n    %s\n", h.v.Rule, h.v.Key, h.inst.Name, h.v.Devs, unknownCount[k], status, firstLine(h.v.Msg))
		lines = append(lines, fmt.Sprintf("VIOLATION property=%s replay=%s", id, path))
		exit = 1
	}

	exhaustive := a.incomplete == 0 && a.skipped == 0 && a.caps == 0 && len(infra) == 0 && len(unknown) == 0
	wall := time.Since(t0).Seconds()
	ev := map[string]any{
		"property_id": id,
		"tier":        tier,
		"seed":        seed,
		"level":       prov.level,
		"coverage": map[string]any{
			"states":                        a.states,
			"transitions":                   a.steps,
			"traces_validated_against_impl": a.execs,
			"evaluations":                   a.execs,
			"distinct_nontrivial":           len(distinct),
			"rule":                          ls.Rule + "; distinct_nontrivial counts distinct (instance, observed outcome) pairs",
			"samples":                       samples,
			"exhaustive":                    exhaustive,
			"instances":                     a.instances,
			"instances_total":               ls.N,
			"instances_not_finished":        a.incomplete + a.skipped,
			"deviation_bound_target":        a.maxBound,
			"deviation_bound_completed_min": a.minBound,
			"deeper_pass_instances":         a.deeper,
			"deeper_pass_finished":          a.deeperDone,
			"choice_points":                 a.points,
			"max_enabled_alternatives":      a.maxAlts,
			"max_threads":                   a.maxThreads,
			"caps_hit":                      a.caps,
			"pruned_by_fingerprint":         a.pruned,
			"distinct_event_histories":      a.histories,
			"violating_executions":          a.violExecs,
			"known_findings_observed":       len(knownSeen),
			"build_s":                       buildS,
			"slowest_instances":             slowest(results, 3),
			"explanation":                   "every counted execution is a run of the real gorums code (instrumented build of /repo's working tree) under the gomc scheduler; states = distinct happens-before fingerprints at choice points, transitions = visible operations executed",
		},
		"assumptions": ls.Assumptions,
		"wall_s":      wall,
		"violations":  len(unknown),
	}
	os.MkdirAll(filepath.Join(evidenceRoot()), 0o755)
	eb, _ := json.MarshalIndent(ev, "", " ")
	os.WriteFile(filepath.Join(evidenceRoot(), id+".json"), eb, 0o644)

	fmt.Printf("%s %s: instances=%d/%d executions=%d states=%d transitions=%d distinct_outcomes=%d bound=%d (min completed %d) caps=%d unfinished=%d known=%d unknown=%d wall=%.1fs (build %.1fs)\n",
		id, tier, a.instances-a.skipped, ls.N, a.execs, a.states, a.steps, len(distinct), a.maxBound, a.minBound, a.caps, a.incomplete+a.skipped, len(knownSeen), len(unknown), wall, buildS)
	for _, l := range lines {
		fmt.Println(l)
	}
	if len(infra) > 0 {
		for _, e := range infra {
			fmt.Fprintln(os.Stderr, "INFRASTRUCTURE:", e)
		}
		if exit == 0 {
			return 3
		}
	}
	return exit
}

func firstLine(s string) string {
	if i := strings.IndexByte(s, '\n'); i >= 0 {
		return s[:i]
	}
	return s
}

func lastLines(s string, n int) string {
	ls := strings.Split(strings.TrimSpace(s), "\n")
	if len(ls) > n {
		ls = ls[len(ls)-n:]
	}
	return strings.Join(ls, " | ")
}

func runReplay(bin, path string) (int, string) {
	cmd := exec.Command(bin, "-replay", path)
	cmd.Env = append(os.Environ(), "GOMAXPROCS=1", "GORACE=halt_on_error=0 log_path="+filepath.Join(filepath.Dir(bin), "race", "replay"))
	out, err := cmd.CombinedOutput()
	if err == nil {
		return 0, string(out)
	}
	if ee, ok := err.(*exec.ExitError); ok {
		return ee.ExitCode(), string(out)
	}
	return 3, string(out) + err.Error()
}

func cmdReplay(path string) int {
	b, err := os.ReadFile(path)
	if err != nil {
		fmt.Fprintln(os.Stderr, err)
		return 3
	}
	var rp vp.Replay
	if err := json.Unmarshal(b, &rp); err != nil {
		fmt.Fprintln(os.Stderr, err)
		return 3
	}
	provs := providersOf(rp.Check)
	bd, err := ensureBuild(provs[0].race)
	if err != nil {
		fmt.Fprintln(os.Stderr, "verif: build failed:", err)
		return 3
	}
	os.Setenv("VERIF_BUILD_DIR", bd.dir)
	rc := 3
	for _, pv := range provs {
		var out string
		rc, out = runReplay(filepath.Join(bd.dir, pv.bin), path)
		if rc != 3 {
			fmt.Print(out)
			return rc
		}
	}
	return rc
}

type prefixWriter struct {
	prefix string
	mu     sync.Mutex
}

func (p *prefixWriter) Write(b []byte) (int, error) {
	p.mu.Lock()
	defer p.mu.Unlock()
	for _, l := range strings.SplitAfter(string(b), "\n") {
		if l != "" {
			fmt.Fprint(os.Stderr, p.prefix+l)
		}
	}
	return len(b), nil
}

// maxReported bounds the number of violations that are replayed and reported with a VIOLATION line.
const maxReported = 4

type provider struct {
	bin   string
	race  bool
	level string
}

func providersOf(id string) []provider {
	switch id {
	case "C15":
		return []provider{{bin: "harness-race", race: true, level: "model_checking"}}
	case "C16":
		return []provider{{bin: "gencheck", level: "model_checking"}}
	case "C17":
		return []provider{{bin: "gencheck", level: "model_checking"}, {bin: "harness", level: "model_checking"}}
	}
	return []provider{{bin: "harness", level: "model_checking"}}
}

// useAltModfile writes a copy of /verif/go.mod whose replace directive points at repoDir and makes
// every go command run in the verif module use it.
func useAltModfile() error {
	b, err := os.ReadFile(filepath.Join(verifDir, "go.mod"))
	if err != nil {
		return err
	}
	sum := sha256.Sum256([]byte(repoDir))
	dir := filepath.Join(verifDir, ".cache", "altmod", hex.EncodeToString(sum[:6]))
	if err := os.MkdirAll(dir, 0o755); err != nil {
		return err
	}
	mod := strings.Replace(string(b), "=> /repo", "=> "+repoDir, 1)
	if err := os.WriteFile(filepath.Join(dir, "go.mod"), []byte(mod), 0o644); err != nil {
		return err
	}
	if sb, err := os.ReadFile(filepath.Join(verifDir, "go.sum")); err == nil {
		os.WriteFile(filepath.Join(dir, "go.sum"), sb, 0o644)
	}
	os.Setenv("GOFLAGS", "-mod=mod -modfile="+filepath.Join(dir, "go.mod"))
	return nil
}

// evidenceRoot: evidence of runs against another copy of the repository (VERIF_REPO) is kept apart;
// /verif/evidence only ever describes /repo itself.
func evidenceRoot() string {
	if repoDir != "/repo" {
		sum := sha256.Sum256([]byte(repoDir))
		return filepath.Join(verifDir, ".cache", "alt-evidence", hex.EncodeToString(sum[:6]))
	}
	return filepath.Join(verifDir, "evidence")
}

// slowest lists the n instances that took longest (for load balancing: the wall time of a check is at least
// that of its slowest instance).
func slowest(results []*vp.InstResult, n int) []string {
	var rs []*vp.InstResult
	for _, r := range results {
		if r != nil {
			rs = append(rs, r)
		}
	}
	sort.Slice(rs, func(i, j int) bool { return rs[i].ElapsedMs > rs[j].ElapsedMs })
	var out []string
	for i := 0; i < n && i < len(rs); i++ {
		out = append(out, fmt.Sprintf("%s: %.1fs, %d executions", rs[i].Name, float64(rs[i].ElapsedMs)/1000, rs[i].Execs))
	}
	return out
}
