// Package litmus holds small concurrent programs written against the real Go
// primitives. The same source is built twice: as it is (real runtime) and through
// the gomc instrumenter (shims); the outcome sets must agree (see cmd/litmus-*).
package litmus

import (
	"context"
	"fmt"
	"sync"
	"sync/atomic"

	"verif/conformance/hint"
)

// Prog is one litmus program. Run returns the observed outcome.
type Prog struct {
	Name string
	// Expect, if non-nil, is the exact set of outcomes the Go semantics allow ("deadlock" = never finishes).
	Expect []string
	Run    func() string
}

func recovered(f func()) (out string) {
	defer func() {
		if r := recover(); r != nil {
			out = "panic"
		}
	}()
	f()
	return "ok"
}

var Programs = []Prog{
	{Name: "mutex-counter", Expect: []string{"2"}, Run: func() string {
		var mu sync.Mutex
		var wg sync.WaitGroup
		n := 0
		for i := 0; i < 2; i++ {
			wg.Add(1)
			go func() {
				defer wg.Done()
				hint.Maybe()
				mu.Lock()
				v := n
				hint.Maybe()
				n = v + 1
				mu.Unlock()
			}()
		}
		wg.Wait()
		return fmt.Sprint(n)
	}},
	{Name: "atomic-load-store-lost-update", Expect: []string{"1", "2"}, Run: func() string {
		var n int32
		var wg sync.WaitGroup
		for i := 0; i < 2; i++ {
			wg.Add(1)
			go func() {
				defer wg.Done()
				v := atomic.LoadInt32(&n)
				hint.Maybe()
				atomic.StoreInt32(&n, v+1)
			}()
		}
		wg.Wait()
		return fmt.Sprint(atomic.LoadInt32(&n))
	}},
	{Name: "atomic-add", Expect: []string{"3"}, Run: func() string {
		var n int32
		var wg sync.WaitGroup
		for i := 0; i < 3; i++ {
			wg.Add(1)
			go func() { defer wg.Done(); hint.Maybe(); atomic.AddInt32(&n, 1) }()
		}
		wg.Wait()
		return fmt.Sprint(n)
	}},
	{Name: "atomic-cas-winner", Expect: []string{"1"}, Run: func() string {
		var flag int32
		var wins int32
		var wg sync.WaitGroup
		for i := 0; i < 3; i++ {
			wg.Add(1)
			go func() {
				defer wg.Done()
				hint.Maybe()
				if atomic.CompareAndSwapInt32(&flag, 0, 1) {
					atomic.AddInt32(&wins, 1)
				}
			}()
		}
		wg.Wait()
		return fmt.Sprint(wins)
	}},
	{Name: "unbuffered-rendezvous", Expect: []string{"7 after-recv"}, Run: func() string {
		ch := make(chan int)
		done := make(chan string)
		go func() {
			ch <- 7
			done <- "after-recv"
		}()
		v := <-ch
		return fmt.Sprint(v, " ", <-done)
	}},
	{Name: "unbuffered-send-blocks-without-receiver", Expect: []string{"deadlock"}, Run: func() string {
		ch := make(chan int)
		ch <- 1
		return "sent"
	}},
	{Name: "buffered-fifo", Expect: []string{"1 2 3"}, Run: func() string {
		ch := make(chan int, 3)
		ch <- 1
		ch <- 2
		ch <- 3
		return fmt.Sprint(<-ch, <-ch, <-ch)
	}},
	{Name: "buffered-full-blocks", Expect: []string{"deadlock"}, Run: func() string {
		ch := make(chan int, 1)
		ch <- 1
		ch <- 2
		return "sent"
	}},
	{Name: "buffered-full-then-drained", Expect: []string{"1 2"}, Run: func() string {
		ch := make(chan int, 1)
		out := make(chan string)
		go func() {
			a := <-ch
			b := <-ch
			out <- fmt.Sprint(a, " ", b)
		}()
		ch <- 1
		ch <- 2
		return <-out
	}},
	{Name: "len-cap", Expect: []string{"2 3"}, Run: func() string {
		ch := make(chan int, 3)
		ch <- 1
		ch <- 2
		return fmt.Sprint(len(ch), " ", cap(ch))
	}},
	{Name: "close-wakes-receivers", Expect: []string{"0 false 0 false"}, Run: func() string {
		ch := make(chan int)
		out := make(chan string, 2)
		for i := 0; i < 2; i++ {
			go func() {
				v, ok := <-ch
				out <- fmt.Sprint(v, " ", ok)
			}()
		}
		hint.Settle()
		close(ch)
		return <-out + " " + <-out
	}},
	{Name: "close-after-buffered-values", Expect: []string{"1 true 0 false"}, Run: func() string {
		ch := make(chan int, 1)
		ch <- 1
		close(ch)
		a, ok1 := <-ch
		b, ok2 := <-ch
		return fmt.Sprint(a, " ", ok1, " ", b, " ", ok2)
	}},
	{Name: "send-on-closed-panics", Expect: []string{"panic"}, Run: func() string {
		ch := make(chan int, 1)
		close(ch)
		return recovered(func() { ch <- 1 })
	}},
	{Name: "double-close-panics", Expect: []string{"panic"}, Run: func() string {
		ch := make(chan int)
		close(ch)
		return recovered(func() { close(ch) })
	}},
	{Name: "range-until-close", Expect: []string{"6"}, Run: func() string {
		ch := make(chan int)
		go func() {
			for i := 1; i <= 3; i++ {
				ch <- i
			}
			close(ch)
		}()
		s := 0
		for v := range ch {
			s += v
		}
		return fmt.Sprint(s)
	}},
	{Name: "select-default", Expect: []string{"default"}, Run: func() string {
		ch := make(chan int)
		select {
		case <-ch:
			return "recv"
		default:
			return "default"
		}
	}},
	{Name: "select-nil-channel-never-ready", Expect: []string{"b"}, Run: func() string {
		var a chan int
		b := make(chan int, 1)
		b <- 1
		select {
		case <-a:
			return "a"
		case <-b:
			return "b"
		}
	}},
	{Name: "select-two-ready", Expect: []string{"a", "b"}, Run: func() string {
		a := make(chan int, 1)
		b := make(chan int, 1)
		a <- 1
		b <- 1
		select {
		case <-a:
			return "a"
		case <-b:
			return "b"
		}
	}},
	{Name: "select-send-or-recv", Expect: []string{"recv", "send"}, Run: func() string {
		in := make(chan int, 1)
		out := make(chan int, 1)
		in <- 1
		select {
		case <-in:
			return "recv"
		case out <- 2:
			return "send"
		}
	}},
	{Name: "select-blocks-until-partner", Expect: []string{"got 5"}, Run: func() string {
		a := make(chan int)
		b := make(chan int)
		go func() { hint.Maybe(); b <- 5 }()
		select {
		case v := <-a:
			return fmt.Sprint("a ", v)
		case v := <-b:
			return fmt.Sprint("got ", v)
		}
	}},
	{Name: "rwmutex-writer-blocks-new-readers", Expect: []string{"try=false after-writer=1"}, Run: func() string {
		var rw sync.RWMutex
		x := 0
		rw.RLock()
		done := make(chan struct{})
		go func() {
			rw.Lock()
			x = 1
			rw.Unlock()
			close(done)
		}()
		hint.Settle() // the writer is now waiting for the reader
		try := rw.TryRLock()
		if try {
			rw.RUnlock()
		}
		rw.RUnlock()
		<-done
		rw.RLock()
		v := x
		rw.RUnlock()
		return fmt.Sprintf("try=%v after-writer=%d", try, v)
	}},
	{Name: "rwmutex-reader-parked-writer-waits-forever", Expect: []string{"deadlock"}, Run: func() string {
		var rw sync.RWMutex
		rw.RLock() // never released (a reader parked in a blocking call)
		rw.Lock()
		return "locked"
	}},
	{Name: "rwmutex-readers-share", Expect: []string{"2"}, Run: func() string {
		var rw sync.RWMutex
		var in int32
		var max int32
		var wg sync.WaitGroup
		gate := make(chan struct{})
		for i := 0; i < 2; i++ {
			wg.Add(1)
			go func() {
				defer wg.Done()
				rw.RLock()
				n := atomic.AddInt32(&in, 1)
				for {
					m := atomic.LoadInt32(&max)
					if n <= m || atomic.CompareAndSwapInt32(&max, m, n) {
						break
					}
				}
				<-gate
				rw.RUnlock()
			}()
		}
		hint.Settle()
		close(gate)
		wg.Wait()
		return fmt.Sprint(max)
	}},
	{Name: "mutex-trylock", Expect: []string{"false true"}, Run: func() string {
		var mu sync.Mutex
		mu.Lock()
		a := mu.TryLock()
		mu.Unlock()
		b := mu.TryLock()
		return fmt.Sprint(a, " ", b)
	}},
	{Name: "once-concurrent", Expect: []string{"1 1 1"}, Run: func() string {
		var once sync.Once
		var n int32
		var wg sync.WaitGroup
		res := make([]int32, 2)
		for i := 0; i < 2; i++ {
			i := i
			wg.Add(1)
			go func() {
				defer wg.Done()
				hint.Maybe()
				once.Do(func() { hint.Maybe(); atomic.AddInt32(&n, 1) })
				res[i] = atomic.LoadInt32(&n) // Do returns only after f has completed
			}()
		}
		wg.Wait()
		return fmt.Sprint(n, " ", res[0], " ", res[1])
	}},
	{Name: "waitgroup-negative-panics", Expect: []string{"panic"}, Run: func() string {
		var wg sync.WaitGroup
		return recovered(func() { wg.Done() })
	}},
	{Name: "cond-signal-wakes-one", Expect: []string{"woken=1"}, Run: func() string {
		var mu sync.Mutex
		c := sync.NewCond(&mu)
		var woken int32
		ready := false
		for i := 0; i < 2; i++ {
			go func() {
				mu.Lock()
				for !ready {
					c.Wait()
				}
				ready = false
				atomic.AddInt32(&woken, 1)
				mu.Unlock()
			}()
		}
		hint.Settle()
		mu.Lock()
		ready = true
		c.Signal()
		mu.Unlock()
		hint.Settle()
		return fmt.Sprintf("woken=%d", atomic.LoadInt32(&woken))
	}},
	{Name: "context-cancel-propagates", Expect: []string{"context canceled context canceled <nil>"}, Run: func() string {
		parent, cancel := context.WithCancel(context.Background())
		child, cancel2 := context.WithCancel(parent)
		defer cancel2()
		sibling, cancel3 := context.WithCancel(context.Background())
		defer cancel3()
		cancel()
		<-child.Done()
		return fmt.Sprint(parent.Err(), " ", child.Err(), " ", sibling.Err())
	}},
	{Name: "context-value-wraps-cancel", Expect: []string{"v context canceled"}, Run: func() string {
		type k struct{}
		parent, cancel := context.WithCancel(context.Background())
		ctx := context.WithValue(parent, k{}, "v")
		go func() { hint.Maybe(); cancel() }()
		<-ctx.Done()
		return fmt.Sprint(ctx.Value(k{}), " ", ctx.Err())
	}},
	{Name: "context-child-of-cancelled", Expect: []string{"context canceled"}, Run: func() string {
		parent, cancel := context.WithCancel(context.Background())
		cancel()
		child, c2 := context.WithCancel(parent)
		defer c2()
		select {
		case <-child.Done():
			return fmt.Sprint(child.Err())
		default:
			return "not done"
		}
	}},
	{Name: "select-ctx-or-value", Expect: []string{"ctx", "value"}, Run: func() string {
		ctx, cancel := context.WithCancel(context.Background())
		ch := make(chan int, 1)
		ch <- 1
		cancel()
		select {
		case <-ctx.Done():
			return "ctx"
		case <-ch:
			return "value"
		}
	}},
	{Name: "pool-get-after-put", Expect: []string{"new", "reused"}, Run: func() string {
		p := sync.Pool{New: func() any { return "new" }}
		p.Put("reused")
		return p.Get().(string)
	}},
	{Name: "sync-map", Expect: []string{"1 true 2 false"}, Run: func() string {
		var m sync.Map
		m.Store("a", 1)
		v, ok := m.Load("a")
		act, loaded := m.LoadOrStore("b", 2)
		return fmt.Sprint(v, " ", ok, " ", act, " ", loaded)
	}},
	{Name: "message-passing-visibility", Expect: []string{"42"}, Run: func() string {
		data := 0
		ch := make(chan struct{})
		go func() {
			data = 42
			close(ch)
		}()
		<-ch
		return fmt.Sprint(data)
	}},
	{Name: "three-way-handoff", Expect: []string{"abc", "acb", "bac", "bca", "cab", "cba"}, Run: func() string {
		out := make(chan string, 3)
		var wg sync.WaitGroup
		for _, s := range []string{"a", "b", "c"} {
			s := s
			wg.Add(1)
			go func() { defer wg.Done(); hint.Maybe(); out <- s }()
		}
		wg.Wait()
		return <-out + <-out + <-out
	}},
}
