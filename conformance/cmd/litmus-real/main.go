// litmus-real runs every litmus program many times on the real Go runtime and prints the observed outcome sets.
package main

import (
	"encoding/json"
	"flag"
	"os"
	"runtime"
	"sort"
	"time"

	"verif/conformance/litmus"
)

func main() {
	runs := flag.Int("runs", 300, "runs per program")
	flag.Parse()
	out := map[string][]string{}
	for _, p := range litmus.Programs {
		seen := map[string]bool{}
		for i := 0; i < *runs; i++ {
			runtime.GOMAXPROCS(1 + i%4)
			ch := make(chan string, 1)
			go func() { ch <- p.Run() }()
			select {
			case o := <-ch:
				seen[o] = true
			case <-time.After(150 * time.Millisecond):
				seen["deadlock"] = true
				if len(seen) == 1 && i >= 2 {
					i = *runs // a program that blocks every time: three samples are enough
				}
			}
		}
		var l []string
		for o := range seen {
			l = append(l, o)
		}
		sort.Strings(l)
		out[p.Name] = l
	}
	json.NewEncoder(os.Stdout).Encode(out)
}
