// litmus-mc explores every litmus program exhaustively under the gomc shims (the litmus
// package is compiled through the instrumenter) and prints the outcome sets.
package main

import (
	"encoding/json"
	"flag"
	"os"
	"sort"

	"verif/conformance/litmus"
	"verif/mc"
)

func main() {
	nocache := flag.Bool("nocache", false, "explore without fingerprint pruning")
	flag.Parse()
	out := map[string][]string{}
	stats := map[string]int{}
	for _, p := range litmus.Programs {
		p := p
		e := &mc.Explorer{Bound: 100, UseCache: !*nocache, Root: func() {
			o := p.Run()
			mc.Outcome("%s", o)
		}}
		res := e.Explore()
		var l []string
		for o := range res.Outcomes {
			if o == "" {
				o = "deadlock" // quiescent without a result
			}
			l = append(l, o)
		}
		sort.Strings(l)
		out[p.Name] = l
		stats[p.Name] = res.Execs
		for _, v := range res.Violations {
			for _, vv := range v.Viol {
				out[p.Name] = append(out[p.Name], "VIOLATION:"+vv.Rule+":"+vv.Msg)
			}
		}
	}
	expect := map[string][]string{}
	for _, p := range litmus.Programs {
		if p.Expect != nil {
			expect[p.Name] = p.Expect
		}
	}
	json.NewEncoder(os.Stdout).Encode(map[string]any{"outcomes": out, "executions": stats, "expect": expect})
}
