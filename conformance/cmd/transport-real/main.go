// transport-real runs the transport scripts against real grpc-go over loopback.
package main

import (
	"context"
	"encoding/json"
	"errors"
	"io"
	"net"
	"os"
	"sync"
	"time"

	"github.com/relab/gorums/ordering"
	"google.golang.org/grpc"
	"google.golang.org/grpc/backoff"
	"google.golang.org/grpc/codes"
	"google.golang.org/grpc/credentials/insecure"
	"google.golang.org/grpc/metadata"
	"google.golang.org/grpc/status"

	"verif/conformance/transport"
)

func class(err error) string {
	switch {
	case err == nil:
		return "ok"
	case errors.Is(err, io.EOF):
		return "EOF"
	case errors.Is(err, context.DeadlineExceeded):
		return "DeadlineExceeded"
	}
	if st, ok := status.FromError(err); ok {
		return st.Code().String()
	}
	return "error:" + err.Error()
}

type server struct {
	ordering.UnimplementedGorumsServer
	mode string
	mu   sync.Mutex
	saw  chan string
}

func (s *server) NodeStream(srv ordering.Gorums_NodeStreamServer) error {
	switch s.mode {
	case "return-nil":
		return nil
	case "return-err":
		return status.Error(codes.NotFound, "nope")
	case "noread":
		<-srv.Context().Done()
		return nil
	case "report-md":
		md, _ := metadata.FromIncomingContext(srv.Context())
		v := ""
		if len(md.Get("k")) > 0 {
			v = md.Get("k")[0]
		}
		srv.Send(&ordering.Metadata{Method: v})
		<-srv.Context().Done()
		return nil
	}
	for {
		m, err := srv.Recv()
		if err != nil {
			done := "ctx-open"
			select {
			case <-srv.Context().Done():
				done = "ctx-done"
			case <-time.After(500 * time.Millisecond):
			}
			select {
			case s.saw <- class(err) + "," + done:
			default:
			}
			return err
		}
		if err := srv.Send(m); err != nil {
			return err
		}
	}
}

type env struct {
	addr   string
	lis    net.Listener
	gs     *grpc.Server
	srv    *server
	conn   *grpc.ClientConn
	stream ordering.Gorums_NodeStreamClient
	cancel context.CancelFunc
	md     string
	async  chan string
	n      uint64
}

func newEnv() *env {
	// reserve a port
	l, err := net.Listen("tcp", "127.0.0.1:0")
	if err != nil {
		panic(err)
	}
	addr := l.Addr().String()
	l.Close()
	return &env{addr: addr}
}

func (e *env) Start(mode string) {
	var l net.Listener
	var err error
	for i := 0; i < 50; i++ {
		if l, err = net.Listen("tcp", e.addr); err == nil {
			break
		}
		time.Sleep(50 * time.Millisecond)
	}
	if err != nil {
		panic(err)
	}
	e.lis = l
	e.srv = &server{mode: mode, saw: make(chan string, 4)}
	e.gs = grpc.NewServer()
	ordering.RegisterGorumsServer(e.gs, e.srv)
	go e.gs.Serve(l)
}

func (e *env) Stop() {
	if e.gs != nil {
		e.gs.Stop()
		e.gs = nil
	}
}

func (e *env) Dial(blocking bool) string {
	ctx, cancel := context.WithTimeout(context.Background(), 300*time.Millisecond)
	defer cancel()
	opts := []grpc.DialOption{grpc.WithTransportCredentials(insecure.NewCredentials()),
		grpc.WithConnectParams(grpc.ConnectParams{Backoff: backoff.Config{BaseDelay: 50 * time.Millisecond, Multiplier: 1.2, MaxDelay: 200 * time.Millisecond}})}
	if blocking {
		opts = append(opts, grpc.WithBlock())
	}
	c, err := grpc.DialContext(ctx, e.addr, opts...)
	e.conn = c
	return class(err)
}

func (e *env) NewStream() string {
	if e.conn == nil {
		return "no-conn"
	}
	ctx, cancel := context.WithCancel(context.Background())
	if e.md != "" {
		ctx = metadata.NewOutgoingContext(ctx, metadata.Pairs("k", e.md))
	}
	st, err := ordering.NewGorumsClient(e.conn).NodeStream(ctx)
	if err != nil {
		cancel()
		return class(err)
	}
	e.stream, e.cancel = st, cancel
	return "ok"
}

func (e *env) RetryNewStream() string {
	var c string
	for i := 0; i < 100; i++ {
		if c = e.NewStream(); c == "ok" {
			return c
		}
		time.Sleep(50 * time.Millisecond)
	}
	return c
}

func timed(f func() error, d time.Duration) string {
	ch := make(chan error, 1)
	go func() { ch <- f() }()
	select {
	case err := <-ch:
		return class(err)
	case <-time.After(d):
		return "blocked"
	}
}

func (e *env) Send() string {
	e.n++
	// an error of a dead stream may surface only on a later write: retry a few times while it still succeeds
	var c string
	for i := 0; i < 20; i++ {
		c = timed(func() error { return e.stream.Send(&ordering.Metadata{MessageID: e.n}) }, 2*time.Second)
		if c != "ok" || !e.dead() {
			return c
		}
		time.Sleep(20 * time.Millisecond)
	}
	return c
}

// dead: the stream is known to be finished (its context ended).
func (e *env) dead() bool {
	select {
	case <-e.stream.Context().Done():
		return true
	default:
		return false
	}
}

func (e *env) Recv() string {
	var m *ordering.Metadata
	c := timed(func() error { var err error; m, err = e.stream.Recv(); return err }, 2*time.Second)
	if c == "ok" && e.srv != nil && e.srv.mode == "report-md" {
		return "ok:" + m.GetMethod()
	}
	return c
}

func (e *env) CancelStream() { e.cancel(); time.Sleep(50 * time.Millisecond) }

func (e *env) CloseConn() string { c := class(e.conn.Close()); time.Sleep(50 * time.Millisecond); return c }

func (e *env) SetMD(v string) { e.md = v }

func (e *env) SendUntilBlocked() string {
	big := make([]byte, 1024)
	for i := 0; i < 100000; i++ {
		c := timed(func() error { return e.stream.Send(&ordering.Metadata{MessageID: 1, Method: string(big)}) }, time.Second)
		if c != "ok" {
			return c
		}
	}
	return "never-blocked"
}

func (e *env) AsyncSend() {
	e.async = make(chan string, 1)
	big := make([]byte, 1024)
	go func() { e.async <- class(e.stream.Send(&ordering.Metadata{MessageID: 2, Method: string(big)})) }()
	time.Sleep(100 * time.Millisecond)
}

func (e *env) Unblocked() string {
	select {
	case c := <-e.async:
		return c
	case <-time.After(3 * time.Second):
		return "blocked"
	}
}

func (e *env) ServerSaw() string {
	select {
	case s := <-e.srv.saw:
		return s
	case <-time.After(3 * time.Second):
		return "nothing"
	}
}

func main() {
	out := map[string][]string{}
	for _, s := range transport.Scripts {
		e := newEnv()
		out[s.Name] = s.Run(e)
		e.Stop()
		if e.conn != nil {
			e.conn.Close()
		}
	}
	json.NewEncoder(os.Stdout).Encode(out)
}
