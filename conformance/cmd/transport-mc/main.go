// transport-mc runs the transport scripts against the fakegrpc model under the gomc scheduler.
package main

import (
	"context"
	"encoding/json"
	"errors"
	"io"
	"os"

	"github.com/relab/gorums"
	"github.com/relab/gorums/ordering"
	"google.golang.org/grpc"
	"google.golang.org/grpc/codes"
	"google.golang.org/grpc/encoding"
	"google.golang.org/grpc/metadata"
	"google.golang.org/grpc/status"

	"verif/conformance/transport"
	"verif/mc"
	"verif/mc/fakegrpc"
	"verif/mc/mcctx"
)

const addr = "127.0.0.1:9001"

func class(err error) string {
	switch {
	case err == nil:
		return "ok"
	case errors.Is(err, io.EOF):
		return "EOF"
	case errors.Is(err, context.DeadlineExceeded):
		return "DeadlineExceeded"
	}
	if st, ok := status.FromError(err); ok {
		return st.Code().String()
	}
	return "error:" + err.Error()
}

type env struct {
	fw      *fakegrpc.World
	mode    string
	started bool
	conn    *fakegrpc.ClientConn
	stream  ordering.Gorums_NodeStreamClient
	cancel  context.CancelFunc
	md      string
	saw     []string
	asyncR  *string
	n       uint64
}

func (e *env) serve(inc int, ss grpc.ServerStream) error {
	switch e.mode {
	case "return-nil":
		return nil
	case "return-err":
		return status.Error(codes.NotFound, "nope")
	case "noread":
		mc.Recv(ss.Context().Done())
		return nil
	case "report-md":
		md, _ := metadata.FromIncomingContext(ss.Context())
		v := ""
		if len(md.Get("k")) > 0 {
			v = md.Get("k")[0]
		}
		ss.SendMsg(&ordering.Metadata{Method: v})
		mc.Recv(ss.Context().Done())
		return nil
	}
	for {
		m := new(ordering.Metadata)
		if err := ss.RecvMsg(m); err != nil {
			mc.Recv(ss.Context().Done()) // the real server observes its context done shortly after
			e.saw = append(e.saw, class(err)+",ctx-done")
			return err
		}
		if err := ss.SendMsg(m); err != nil {
			return err
		}
	}
}

func (e *env) Start(mode string) {
	e.mode = mode
	if e.started {
		e.fw.Restart(addr)
	} else {
		// the endpoint exists from the beginning (down); starting it the first time is a restart of incarnation 0
		e.fw.Restart(addr)
		e.started = true
	}
	mc.Quiesce()
}

func (e *env) Stop() { e.fw.Crash(addr); mc.Quiesce() }

func (e *env) Dial(blocking bool) string {
	e.fw.BlockingDial = blocking
	c, err := fakegrpc.DialContext(context.Background(), addr)
	e.conn = c
	return class(err)
}

func (e *env) NewStream() string {
	if e.conn == nil {
		return "no-conn"
	}
	ctx, cancel := mcctx.WithCancel(context.Background())
	if e.md != "" {
		ctx = metadata.NewOutgoingContext(ctx, metadata.Pairs("k", e.md))
	}
	st, err := ordering.NewGorumsClient(e.conn).NodeStream(ctx)
	if err != nil {
		cancel()
		return class(err)
	}
	e.stream, e.cancel = st, cancel
	mc.Quiesce()
	return "ok"
}

func (e *env) RetryNewStream() string { return e.NewStream() }

// timed runs f in its own thread; "blocked" if it has not finished when everything is quiescent.
func timed(f func() error) string {
	var res *string
	mc.GoNamed("op", func() {
		c := class(f())
		res = &c
	})
	mc.Quiesce()
	if res == nil {
		return "blocked"
	}
	return *res
}

func (e *env) Send() string {
	e.n++
	return timed(func() error { return e.stream.Send(&ordering.Metadata{MessageID: e.n}) })
}

func (e *env) Recv() string {
	var m *ordering.Metadata
	c := timed(func() error { var err error; m, err = e.stream.Recv(); return err })
	if c == "ok" && e.mode == "report-md" {
		return "ok:" + m.GetMethod()
	}
	return c
}

func (e *env) CancelStream()     { e.cancel(); mc.Quiesce() }
func (e *env) CloseConn() string { c := class(e.conn.Close()); mc.Quiesce(); return c }
func (e *env) SetMD(v string)    { e.md = v }

func (e *env) SendUntilBlocked() string {
	for i := 0; i < 1000; i++ {
		if c := timed(func() error { return e.stream.Send(&ordering.Metadata{MessageID: 1}) }); c != "ok" {
			return c
		}
	}
	return "never-blocked"
}

func (e *env) AsyncSend() {
	e.asyncR = nil
	mc.GoNamed("async-send", func() {
		c := class(e.stream.Send(&ordering.Metadata{MessageID: 2}))
		e.asyncR = &c
	})
	mc.Quiesce()
}

func (e *env) Unblocked() string {
	mc.Quiesce()
	if e.asyncR == nil {
		return "blocked"
	}
	return *e.asyncR
}

func (e *env) ServerSaw() string {
	mc.Quiesce()
	if len(e.saw) == 0 {
		return "nothing"
	}
	return e.saw[0]
}

func main() {
	if encoding.GetCodec(gorums.ContentSubtype) == nil {
		encoding.RegisterCodec(gorums.NewCodec())
	}
	out := map[string][]string{}
	for _, s := range transport.Scripts {
		s := s
		var trace []string
		sc := mc.Run(func() {
			mc.NoBranch(true)
			e := &env{fw: fakegrpc.NewWorld(2)}
			e.fw.AddEndpoint(addr, false, e.serve)
			trace = s.Run(e)
		}, nil, 1000000, false)
		for _, v := range sc.Viol {
			trace = append(trace, "VIOLATION:"+v.Rule+":"+v.Msg)
		}
		out[s.Name] = trace
	}
	json.NewEncoder(os.Stdout).Encode(out)
}
