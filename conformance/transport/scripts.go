// Package transport holds scripts over the handful of gRPC operations gorums uses.
// Each script is run against real grpc-go over loopback and against the fakegrpc model;
// the observed result class of every step must match (cmd/transport-real, cmd/transport-mc).
package transport

import "fmt"

// Env is the transport under test. Every operation returns a result class:
// "ok", "EOF", a gRPC status code name ("Unavailable", "Canceled", ...), "DeadlineExceeded" or "blocked".
type Env interface {
	// Server control. mode: "echo" (reply to every message), "noread" (never read), "return-nil" (handler returns nil at once),
	// "return-err" (handler returns status NotFound at once), "report-md" (reply once with the metadata value of key "k").
	Start(mode string)
	Stop()
	Dial(blocking bool) string
	NewStream() string
	Send() string
	Recv() string // for "report-md" servers the class is "ok:<value>"
	CancelStream()
	CloseConn() string
	SetMD(v string)
	// SendUntilBlocked sends until a send blocks (returns "blocked") or fails (returns the class).
	SendUntilBlocked() string
	// AsyncSend starts a Send that is expected to block; Unblocked returns its eventual class ("blocked" if it still hangs).
	AsyncSend()
	Unblocked() string
	// ServerSaw returns what the server-side Recv observed after the client went away: class and whether the server context is done.
	ServerSaw() string
	// Retry repeats NewStream until it succeeds or ~5 s pass (real transports reconnect with their own back-off).
	RetryNewStream() string
}

// Script is a named sequence of steps; it returns the trace of result classes.
type Script struct {
	Name string
	Run  func(e Env) []string
}

func tr(steps ...string) []string { return steps }

var Scripts = []Script{
	{"up-send-recv", func(e Env) []string {
		e.Start("echo")
		return tr("dial="+e.Dial(false), "stream="+e.NewStream(), "send="+e.Send(), "recv="+e.Recv(), "send="+e.Send(), "recv="+e.Recv())
	}},
	{"down-nonblocking-dial", func(e Env) []string {
		return tr("dial="+e.Dial(false), "stream="+e.NewStream())
	}},
	{"down-blocking-dial", func(e Env) []string {
		return tr("dial=" + e.Dial(true))
	}},
	{"up-blocking-dial", func(e Env) []string {
		e.Start("echo")
		return tr("dial="+e.Dial(true), "stream="+e.NewStream(), "send="+e.Send(), "recv="+e.Recv())
	}},
	{"server-stops-recv", func(e Env) []string {
		e.Start("echo")
		t := tr("dial="+e.Dial(false), "stream="+e.NewStream(), "send="+e.Send(), "recv="+e.Recv())
		e.Stop()
		return append(t, "recv="+e.Recv(), "send="+e.Send(), "newstream="+e.NewStream())
	}},
	{"cancel-stream-context", func(e Env) []string {
		e.Start("echo")
		t := tr("dial="+e.Dial(false), "stream="+e.NewStream(), "send="+e.Send(), "recv="+e.Recv())
		e.CancelStream()
		return append(t, "recv="+e.Recv(), "send="+e.Send())
	}},
	{"close-conn", func(e Env) []string {
		e.Start("echo")
		t := tr("dial="+e.Dial(false), "stream="+e.NewStream())
		t = append(t, "close="+e.CloseConn())
		return append(t, "recv="+e.Recv(), "newstream="+e.NewStream(), "close-again="+e.CloseConn())
	}},
	{"non-reading-server-blocks-writes", func(e Env) []string {
		e.Start("noread")
		return tr("dial="+e.Dial(false), "stream="+e.NewStream(), "fill="+e.SendUntilBlocked())
	}},
	{"blocked-write-cancelled", func(e Env) []string {
		e.Start("noread")
		t := tr("dial="+e.Dial(false), "stream="+e.NewStream(), "fill="+e.SendUntilBlocked())
		e.AsyncSend()
		e.CancelStream()
		return append(t, "blocked-send="+e.Unblocked())
	}},
	{"blocked-write-server-stops", func(e Env) []string {
		e.Start("noread")
		t := tr("dial="+e.Dial(false), "stream="+e.NewStream(), "fill="+e.SendUntilBlocked())
		e.AsyncSend()
		e.Stop()
		return append(t, "blocked-send="+e.Unblocked())
	}},
	{"restart-same-conn", func(e Env) []string {
		e.Start("echo")
		t := tr("dial="+e.Dial(false), "stream="+e.NewStream(), "send="+e.Send(), "recv="+e.Recv())
		e.Stop()
		t = append(t, "recv="+e.Recv())
		e.Start("echo")
		return append(t, "newstream="+e.RetryNewStream(), "send="+e.Send(), "recv="+e.Recv())
	}},
	{"down-then-up-same-conn", func(e Env) []string {
		t := tr("dial="+e.Dial(false), "stream="+e.NewStream())
		e.Start("echo")
		return append(t, "newstream="+e.RetryNewStream(), "send="+e.Send(), "recv="+e.Recv())
	}},
	{"handler-returns-nil", func(e Env) []string {
		e.Start("return-nil")
		return tr("dial="+e.Dial(false), "stream="+e.NewStream(), "recv="+e.Recv())
	}},
	{"handler-returns-error", func(e Env) []string {
		e.Start("return-err")
		return tr("dial="+e.Dial(false), "stream="+e.NewStream(), "recv="+e.Recv())
	}},
	{"metadata-reaches-server", func(e Env) []string {
		e.Start("report-md")
		e.SetMD("v1")
		return tr("dial="+e.Dial(false), "stream="+e.NewStream(), "recv="+e.Recv())
	}},
	{"client-cancel-seen-by-server", func(e Env) []string {
		e.Start("echo")
		t := tr("dial="+e.Dial(false), "stream="+e.NewStream(), "send="+e.Send(), "recv="+e.Recv())
		e.CancelStream()
		return append(t, "server="+e.ServerSaw())
	}},
	{"conn-close-seen-by-server", func(e Env) []string {
		e.Start("echo")
		t := tr("dial="+e.Dial(false), "stream="+e.NewStream(), "send="+e.Send(), "recv="+e.Recv())
		e.CloseConn()
		return append(t, "server="+e.ServerSaw())
	}},
	{"two-streams-independent", func(e Env) []string {
		e.Start("echo")
		t := tr("dial="+e.Dial(false), "stream="+e.NewStream(), "send="+e.Send(), "recv="+e.Recv())
		e.CancelStream()
		t = append(t, "recv="+e.Recv())
		return append(t, "newstream="+e.NewStream(), "send="+e.Send(), "recv="+e.Recv())
	}},
}

// Format renders a trace.
func Format(t []string) string { return fmt.Sprint(t) }
