//go:build gomc

package hint

import "verif/mc"

func Maybe() {}

// Settle waits until every other thread is blocked.
func Settle() { mc.Quiesce() }
