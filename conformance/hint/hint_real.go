//go:build !gomc

// Package hint gives litmus programs two schedule hints that have a different
// implementation under the real runtime and under the gomc scheduler.
package hint

import (
	"math/rand"
	"runtime"
	"time"
)

// Maybe yields the processor now and then (real runtime: widen the set of observed schedules).
func Maybe() {
	if rand.Intn(2) == 0 {
		runtime.Gosched()
	}
}

// Settle waits until every other goroutine of the program has blocked (real runtime: a short sleep).
func Settle() { time.Sleep(10 * time.Millisecond) }
