package gorums

import (
	"github.com/relab/gorums/ordering"
	"google.golang.org/grpc"
)

// VerifServe runs the server side of one node stream over ss.
func VerifServe(s *Server, ss grpc.ServerStream) error {
	return ordering.Gorums_ServiceDesc.Streams[0].Handler(s.srv, ss)
}

// VerifRouters returns the number of response routers registered on the node.
func VerifRouters(n *RawNode) int {
	return len(n.channel.responseRouters)
}
