package gorums

import (
	"github.com/relab/gorums/ordering"
	"google.golang.org/grpc"
)

// VerifServe runs the server side of one node stream over ss.
func VerifServe(s *Server, ss grpc.ServerStream) error {
	return ordering.Gorums_ServiceDesc.Streams[0].Handler(s.srv, ss)
}

// VerifRouters returns the number of response routers registered on the node.
func VerifRouters(n *RawNode) int {
	return len(n.channel.responseRouters)
}

// VerifSetLastErr sets the last error recorded on the node's channel.
func VerifSetLastErr(n *RawNode, err error) {
	n.channel.setLastErr(err)
}

// VerifNewMessage creates an empty message for decoding (1 = request, 2 = response).
func VerifNewMessage(kind int) *Message {
	return newMessage(gorumsMsgType(kind))
}

// VerifMsgID returns the next message id the manager would hand out minus one (ids handed out so far).
func VerifMsgIDs(m *RawManager) uint64 {
	return m.nextMsgID
}
