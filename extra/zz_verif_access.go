package gorums

import (
	"reflect"
	"unsafe"

	"github.com/relab/gorums/ordering"
	"google.golang.org/grpc"
)

// VerifServe runs the server side of one node stream over ss.
func VerifServe(s *Server, ss grpc.ServerStream) error {
	return ordering.Gorums_ServiceDesc.Streams[0].Handler(s.srv, ss)
}

// verifChannel returns the node's channel struct by reflection, so that this file keeps
// compiling when internals it does not need are renamed or moved.
func verifChannel(n *RawNode) reflect.Value {
	f := reflect.ValueOf(n).Elem().FieldByName("channel")
	if !f.IsValid() || f.Kind() != reflect.Ptr || f.IsNil() {
		return reflect.Value{}
	}
	return f.Elem()
}

// VerifRouters returns the amount of per-call bookkeeping the client keeps for the node: the
// total number of entries in the maps of the node's channel that are keyed by a message id
// (response routers and whatever other per-message tables exist).
func VerifRouters(n *RawNode) int {
	c := verifChannel(n)
	if !c.IsValid() {
		return 0
	}
	total := 0
	for i := 0; i < c.NumField(); i++ {
		// per-message tables are keyed by the message id (an unsigned integer); other maps are not per-call state
		if f := c.Field(i); f.Kind() == reflect.Map {
			switch f.Type().Key().Kind() {
			case reflect.Uint64, reflect.Uint32, reflect.Uint:
				total += f.Len()
			}
		}
	}
	return total
}

// VerifSetLastErr sets the last error recorded on the node's channel.
func VerifSetLastErr(n *RawNode, err error) {
	c := verifChannel(n)
	if c.IsValid() {
		if f := c.FieldByName("lastError"); f.IsValid() && f.CanAddr() {
			reflect.NewAt(f.Type(), unsafe.Pointer(f.UnsafeAddr())).Elem().Set(reflect.ValueOf(&err).Elem())
			return
		}
	}
	panic("verif accessor: the node's channel has no field lastError")
}

// VerifNewMessage creates an empty message for decoding (1 = request, 2 = response).
func VerifNewMessage(kind int) *Message {
	return newMessage(gorumsMsgType(kind))
}
