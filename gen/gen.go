// Package gen drives the protoc plugins without protoc: it recovers file
// descriptors from the raw descriptors embedded in committed *.pb.go files (by
// parsing the Go source, so nothing has to be linked), synthesises service
// definitions for the option lattice, builds CodeGeneratorRequests and runs the
// plugin binaries built from the working tree.
package gen

import (
	"bytes"
	"fmt"
	"go/ast"
	"go/parser"
	"go/printer"
	"go/token"
	"os"
	"os/exec"
	"path/filepath"
	"strconv"
	"strings"

	"google.golang.org/protobuf/encoding/protowire"
	"google.golang.org/protobuf/proto"
	"google.golang.org/protobuf/reflect/protodesc"
	"google.golang.org/protobuf/types/descriptorpb"
	"google.golang.org/protobuf/types/known/anypb"
	"google.golang.org/protobuf/types/known/durationpb"
	"google.golang.org/protobuf/types/known/emptypb"
	"google.golang.org/protobuf/types/known/timestamppb"
	"google.golang.org/protobuf/types/known/wrapperspb"
	"google.golang.org/protobuf/types/pluginpb"
)

// RawDescFromGoFile extracts the file descriptor embedded in a protoc-gen-go output file.
func RawDescFromGoFile(path string) (*descriptorpb.FileDescriptorProto, error) {
	fset := token.NewFileSet()
	f, err := parser.ParseFile(fset, path, nil, 0)
	if err != nil {
		return nil, err
	}
	var raw []byte
	found := false
	ast.Inspect(f, func(n ast.Node) bool {
		vs, ok := n.(*ast.ValueSpec)
		if !ok || len(vs.Names) != 1 || !strings.HasSuffix(vs.Names[0].Name, "_rawDesc") || len(vs.Values) != 1 {
			return true
		}
		switch v := vs.Values[0].(type) {
		case *ast.CompositeLit:
			for _, e := range v.Elts {
				bl, ok := e.(*ast.BasicLit)
				if !ok {
					return true
				}
				x, err := strconv.ParseUint(bl.Value, 0, 8)
				if err != nil {
					return true
				}
				raw = append(raw, byte(x))
			}
			found = true
		case *ast.BasicLit:
			if s, err := strconv.Unquote(v.Value); err == nil {
				raw, found = []byte(s), true
			}
		}
		return true
	})
	if !found {
		return nil, fmt.Errorf("%s: no embedded raw descriptor", path)
	}
	fd := &descriptorpb.FileDescriptorProto{}
	if err := proto.Unmarshal(raw, fd); err != nil {
		return nil, fmt.Errorf("%s: %v", path, err)
	}
	return fd, nil
}

// WellKnown returns the descriptor of a well-known import.
func WellKnown(name string) *descriptorpb.FileDescriptorProto {
	switch name {
	case "google/protobuf/empty.proto":
		return protodesc.ToFileDescriptorProto(emptypb.File_google_protobuf_empty_proto)
	case "google/protobuf/descriptor.proto":
		return protodesc.ToFileDescriptorProto(descriptorpb.File_google_protobuf_descriptor_proto)
	case "google/protobuf/any.proto":
		return protodesc.ToFileDescriptorProto(anypb.File_google_protobuf_any_proto)
	case "google/protobuf/timestamp.proto":
		return protodesc.ToFileDescriptorProto(timestamppb.File_google_protobuf_timestamp_proto)
	case "google/protobuf/duration.proto":
		return protodesc.ToFileDescriptorProto(durationpb.File_google_protobuf_duration_proto)
	case "google/protobuf/wrappers.proto":
		return protodesc.ToFileDescriptorProto(wrapperspb.File_google_protobuf_wrappers_proto)
	}
	return nil
}

// Deps resolves the transitive imports of fd in dependency order. extra maps import names to descriptors
// recovered from the repository (gorums.proto ...).
func Deps(fd *descriptorpb.FileDescriptorProto, extra map[string]*descriptorpb.FileDescriptorProto) ([]*descriptorpb.FileDescriptorProto, error) {
	var out []*descriptorpb.FileDescriptorProto
	seen := map[string]bool{}
	var visit func(f *descriptorpb.FileDescriptorProto) error
	visit = func(f *descriptorpb.FileDescriptorProto) error {
		for _, d := range f.Dependency {
			if seen[d] {
				continue
			}
			seen[d] = true
			df := extra[d]
			if df == nil {
				df = WellKnown(d)
			}
			if df == nil {
				return fmt.Errorf("import %q of %s cannot be resolved", d, f.GetName())
			}
			if err := visit(df); err != nil {
				return err
			}
			out = append(out, df)
		}
		return nil
	}
	if err := visit(fd); err != nil {
		return nil, err
	}
	return out, nil
}

// Result is the outcome of one plugin run.
type Result struct {
	Files  map[string]string
	Error  string // CodeGeneratorResponse.error
	Stderr string
	Exit   int
}

// Diagnostic reports whether the run ended with a proper diagnostic (not a Go panic trace).
func (r *Result) Diagnostic() (string, bool) {
	if r.Error != "" {
		return r.Error, true
	}
	if r.Exit != 0 {
		s := strings.TrimSpace(r.Stderr)
		if s == "" || strings.Contains(s, "goroutine ") || strings.Contains(s, "panic:") {
			return s, false
		}
		return s, true
	}
	return "", false
}

// Run executes a plugin binary on a request.
func Run(plugin string, env []string, target *descriptorpb.FileDescriptorProto, deps []*descriptorpb.FileDescriptorProto, param string) (*Result, error) {
	return RunMulti(plugin, env, []*descriptorpb.FileDescriptorProto{target}, deps, param)
}

// RunMulti executes a plugin binary on one request that asks for several files.
func RunMulti(plugin string, env []string, targets []*descriptorpb.FileDescriptorProto, deps []*descriptorpb.FileDescriptorProto, param string) (*Result, error) {
	var names []string
	for _, t := range targets {
		names = append(names, t.GetName())
	}
	req := &pluginpb.CodeGeneratorRequest{
		FileToGenerate:  names,
		Parameter:       proto.String(param),
		ProtoFile:       append(append([]*descriptorpb.FileDescriptorProto{}, deps...), targets...),
		CompilerVersion: &pluginpb.Version{Major: proto.Int32(4), Minor: proto.Int32(24), Patch: proto.Int32(4)},
	}
	in, err := proto.Marshal(req)
	if err != nil {
		return nil, err
	}
	cmd := exec.Command(plugin)
	cmd.Env = append(os.Environ(), env...)
	cmd.Stdin = bytes.NewReader(in)
	var stdout, stderr bytes.Buffer
	cmd.Stdout, cmd.Stderr = &stdout, &stderr
	res := &Result{Files: map[string]string{}}
	if err := cmd.Run(); err != nil {
		ee, ok := err.(*exec.ExitError)
		if !ok {
			return nil, err
		}
		res.Exit = ee.ExitCode()
		if res.Exit == 0 {
			res.Exit = -1
		}
	}
	res.Stderr = stderr.String()
	if res.Exit == 0 {
		resp := &pluginpb.CodeGeneratorResponse{}
		if err := proto.Unmarshal(stdout.Bytes(), resp); err != nil {
			return nil, fmt.Errorf("plugin %s wrote an unparsable response: %v", plugin, err)
		}
		res.Error = resp.GetError()
		for _, f := range resp.File {
			res.Files[f.GetName()] += f.GetContent()
		}
	}
	return res, nil
}

// NormalizeGo parses Go source, drops all comments and prints it back, so that two files can be
// compared up to comments and formatting.
func NormalizeGo(src []byte) (string, error) {
	fset := token.NewFileSet()
	f, err := parser.ParseFile(fset, "x.go", src, 0)
	if err != nil {
		return "", err
	}
	var buf bytes.Buffer
	if err := (&printer.Config{Mode: printer.UseSpaces | printer.TabIndent, Tabwidth: 8}).Fprint(&buf, fset, f); err != nil {
		return "", err
	}
	return buf.String(), nil
}

// FirstDiff returns a short description of the first differing line of two normalised sources.
func FirstDiff(a, b string) string {
	la, lb := strings.Split(a, "\n"), strings.Split(b, "\n")
	for i := 0; i < len(la) || i < len(lb); i++ {
		var x, y string
		if i < len(la) {
			x = la[i]
		}
		if i < len(lb) {
			y = lb[i]
		}
		if x != y {
			return fmt.Sprintf("line %d: committed %q, regenerated %q", i+1, strings.TrimSpace(x), strings.TrimSpace(y))
		}
	}
	return ""
}

// ---- synthesised services ----

// Extension field numbers of gorums.proto.
const (
	ExtUnicast     = 50002
	ExtMulticast   = 50003
	ExtQuorumcall  = 50004
	ExtCorrectable = 50005
	ExtAsync       = 50010
	ExtPerNodeArg  = 50020
	ExtCustomRet   = 50030
)

// MethodSpec describes one synthesised rpc.
type MethodSpec struct {
	Name         string
	In, Out      string // message type names (local, or ".google.protobuf.Empty")
	Quorumcall   bool
	Async        bool
	Correctable  bool
	Multicast    bool
	Unicast      bool
	PerNodeArg   bool
	CustomRet    string
	ClientStream bool
	ServerStream bool
	// ExplicitFalse lists boolean options (extension numbers) that are present with the value false,
	// as in `option (gorums.async) = false;`.
	ExplicitFalse []protowire.Number
}

// Label is a compact description of the option combination.
func (m MethodSpec) Label() string {
	var s []string
	add := func(b bool, n string) {
		if b {
			s = append(s, n)
		}
	}
	add(m.Quorumcall, "qc")
	add(m.Async, "async")
	add(m.Correctable, "corr")
	add(m.Multicast, "mcast")
	add(m.Unicast, "ucast")
	add(m.PerNodeArg, "pna")
	add(m.CustomRet != "", "custom")
	add(m.ClientStream, "cstream")
	add(m.ServerStream, "sstream")
	if len(s) == 0 {
		return "rpc"
	}
	return strings.Join(s, "+")
}

func (m MethodSpec) options() *descriptorpb.MethodOptions {
	var b []byte
	flag := func(on bool, num protowire.Number) {
		if on {
			b = protowire.AppendTag(b, num, protowire.VarintType)
			b = protowire.AppendVarint(b, 1)
		}
	}
	flag(m.Unicast, ExtUnicast)
	flag(m.Multicast, ExtMulticast)
	flag(m.Quorumcall, ExtQuorumcall)
	flag(m.Correctable, ExtCorrectable)
	flag(m.Async, ExtAsync)
	flag(m.PerNodeArg, ExtPerNodeArg)
	for _, num := range m.ExplicitFalse {
		b = protowire.AppendTag(b, num, protowire.VarintType)
		b = protowire.AppendVarint(b, 0)
	}
	if m.CustomRet != "" {
		b = protowire.AppendTag(b, ExtCustomRet, protowire.BytesType)
		b = protowire.AppendString(b, m.CustomRet)
	}
	if len(b) == 0 {
		return nil
	}
	o := &descriptorpb.MethodOptions{}
	o.ProtoReflect().SetUnknown(b)
	return o
}

// ServiceSpec describes a synthesised proto file with one service.
type ServiceSpec struct {
	Pkg      string // proto package and Go package name
	Service  string
	Messages []string // local message names (each gets one string field)
	Enums    []string
	Methods  []MethodSpec
}

// GoImportPath is the import path of the generated package inside the scratch module.
func (s ServiceSpec) GoImportPath() string { return "genmod/" + s.Pkg }

// File builds the file descriptor.
func (s ServiceSpec) File() *descriptorpb.FileDescriptorProto {
	fd := &descriptorpb.FileDescriptorProto{
		Name:       proto.String(s.Pkg + "/" + s.Pkg + ".proto"),
		Package:    proto.String(s.Pkg),
		Syntax:     proto.String("proto3"),
		Dependency: []string{"gorums.proto"},
		Options:    &descriptorpb.FileOptions{GoPackage: proto.String(s.GoImportPath())},
	}
	usesEmpty := false
	for _, m := range s.Messages {
		fd.MessageType = append(fd.MessageType, &descriptorpb.DescriptorProto{
			Name: proto.String(m),
			Field: []*descriptorpb.FieldDescriptorProto{{
				Name: proto.String("value"), Number: proto.Int32(1), JsonName: proto.String("value"),
				Label: descriptorpb.FieldDescriptorProto_LABEL_OPTIONAL.Enum(), Type: descriptorpb.FieldDescriptorProto_TYPE_STRING.Enum(),
			}},
		})
	}
	for _, e := range s.Enums {
		fd.EnumType = append(fd.EnumType, &descriptorpb.EnumDescriptorProto{
			Name:  proto.String(e),
			Value: []*descriptorpb.EnumValueDescriptorProto{{Name: proto.String(strings.ToUpper(e) + "_ZERO"), Number: proto.Int32(0)}},
		})
	}
	svc := &descriptorpb.ServiceDescriptorProto{Name: proto.String(s.Service)}
	typ := func(n string) string {
		if strings.HasPrefix(n, ".") {
			if n == ".google.protobuf.Empty" {
				usesEmpty = true
			}
			return n
		}
		return "." + s.Pkg + "." + n
	}
	for _, m := range s.Methods {
		md := &descriptorpb.MethodDescriptorProto{
			Name: proto.String(m.Name), InputType: proto.String(typ(m.In)), OutputType: proto.String(typ(m.Out)),
			Options: m.options(),
		}
		if m.ClientStream {
			md.ClientStreaming = proto.Bool(true)
		}
		if m.ServerStream {
			md.ServerStreaming = proto.Bool(true)
		}
		svc.Method = append(svc.Method, md)
	}
	fd.Service = []*descriptorpb.ServiceDescriptorProto{svc}
	if usesEmpty {
		fd.Dependency = append(fd.Dependency, "google/protobuf/empty.proto")
	}
	return fd
}

// RepoDescriptors recovers the descriptors other files import from the repository.
func RepoDescriptors(repo string) (map[string]*descriptorpb.FileDescriptorProto, error) {
	out := map[string]*descriptorpb.FileDescriptorProto{}
	for name, rel := range map[string]string{"gorums.proto": "gorums.pb.go"} {
		fd, err := RawDescFromGoFile(filepath.Join(repo, rel))
		if err != nil {
			return nil, err
		}
		fd.Name = proto.String(name)
		out[name] = fd
	}
	return out, nil
}

// GoCamelCase is protogen's rule for deriving a Go identifier from a proto name.
func GoCamelCase(s string) string {
	lower := func(c byte) bool { return 'a' <= c && c <= 'z' }
	var b []byte
	for i := 0; i < len(s); i++ {
		c := s[i]
		switch {
		case c == '.' && i+1 < len(s) && lower(s[i+1]):
		case c == '.':
			b = append(b, '_')
		case c == '_' && (i == 0 || s[i-1] == '.'):
			b = append(b, 'X')
		case c == '_' && i+1 < len(s) && lower(s[i+1]):
		case '0' <= c && c <= '9':
			b = append(b, c)
		default:
			if lower(c) {
				c -= 'a' - 'A'
			}
			b = append(b, c)
			for ; i+1 < len(s) && lower(s[i+1]); i++ {
				b = append(b, s[i+1])
			}
		}
	}
	return string(b)
}
